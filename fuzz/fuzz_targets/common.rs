// Shared by the three targets (included with `include!`): strict mode, model decoding from
// `arbitrary::Unstructured`, the counting allocator.
use arbitrary::Unstructured;
use vlib::model::*;
use vlib::refcodec::{FileModel, Rec};

#[global_allocator]
static ALLOC: vlib::alloc::Counting = vlib::alloc::Counting;

#[allow(dead_code)]
fn die(what: &str, msg: &str) -> ! {
    eprintln!("ORACLE FAILURE [{}]: {}", what, msg);
    std::process::abort();
}

#[allow(dead_code)]
fn f64_bits(u: &mut Unstructured) -> arbitrary::Result<F> {
    Ok(match u.int_in_range(0u8..=9)? {
        0..=3 => F::of(u.int_in_range(-40i32..=40)? as f64 / 2.0),
        4 | 5 => F::of(u.int_in_range(-16384i32..=16384)? as f64 / 256.0),
        6 => {
            const S: [f64; 12] = [0.0, -0.0, f64::INFINITY, f64::NEG_INFINITY, f64::MAX, f64::MIN, -10e38, -1.0000000000000002e39, -9.999999999999999e38, 5e-324, 1e300, -1e38];
            F::of(S[u.int_in_range(0usize..=11)?])
        }
        7 => F(u.arbitrary::<u64>()? | 0x7ff0000000000001), // NaN
        _ => F(u.arbitrary::<u64>()?),
    })
}

#[allow(dead_code)]
fn non_nan(f: F) -> F {
    if f.v().is_nan() {
        F::of(1.5)
    } else {
        f
    }
}

#[allow(dead_code)]
fn vertex(u: &mut Unstructured, ty: Ty, nan_xy: bool) -> arbitrary::Result<V> {
    let mut v = [F(0); 4];
    v[0] = f64_bits(u)?;
    v[1] = f64_bits(u)?;
    if !nan_xy {
        v[0] = non_nan(v[0]);
        v[1] = non_nan(v[1]);
    }
    if ty.has_z() {
        v[2] = f64_bits(u)?;
    }
    if ty.carries_m() {
        v[3] = f64_bits(u)?;
    }
    Ok(v)
}

/// File-level record as a foreign producer may store it.
#[allow(dead_code)]
fn fgeom(u: &mut Unstructured, ty: Ty) -> arbitrary::Result<Geom> {
    if ty == Ty::Null {
        return Ok(Geom::null());
    }
    let mut bbox = [F(0); 8];
    for b in bbox.iter_mut() {
        *b = f64_bits(u)?;
    }
    let m_present = if ty == Ty::PointM { true } else if ty.carries_m() { u.arbitrary()? } else { false };
    let mut parts = Vec::new();
    match ty.family() {
        Family::Point => parts.push(Part { kind: 0, pts: vec![vertex(u, ty, true)?] }),
        Family::Multipoint => {
            let n = u.int_in_range(0usize..=6)?;
            let mut pts = Vec::new();
            for _ in 0..n {
                pts.push(vertex(u, ty, true)?);
            }
            parts.push(Part { kind: 0, pts });
        }
        _ => {
            let np = u.int_in_range(0usize..=4)?;
            for _ in 0..np {
                let n = u.int_in_range(0usize..=5)?;
                let kind = if ty == Ty::Multipatch { u.int_in_range(0i32..=5)? } else { 0 };
                let mut pts = Vec::new();
                for _ in 0..n {
                    pts.push(vertex(u, ty, true)?);
                }
                parts.push(Part { kind, pts });
            }
        }
    }
    Ok(Geom { ty, parts, bbox, m_present }.canon_file())
}

#[allow(dead_code)]
fn file_model(u: &mut Unstructured) -> arbitrary::Result<FileModel> {
    let ty = ALL14[u.int_in_range(0usize..=13)?];
    let n = u.int_in_range(0usize..=4)?;
    let numbering = u.int_in_range(0u8..=3)?;
    let mut recs = Vec::new();
    for i in 0..n {
        let geom = if u.ratio(1u8, 6u8)? { Geom::null() } else { fgeom(u, ty)? };
        let number = match numbering {
            0 | 1 => i as i32 + 1,
            2 => i as i32,
            _ => u.arbitrary()?,
        };
        recs.push(Rec { number, geom });
    }
    let tn = u.int_in_range(0usize..=16)?;
    let trailing = u.bytes(tn.min(u.len()))?.to_vec();
    let mut header_bbox = [F(0); 8];
    for b in header_bbox.iter_mut() {
        *b = f64_bits(u)?;
    }
    Ok(FileModel { ty, header_bbox, recs, trailing, order: vec![], fillers: vec![] })
}

/// Constructor input for the 13 concrete types (preconditions honoured).
#[allow(dead_code)]
fn input_geom(u: &mut Unstructured, ty: Ty) -> arbitrary::Result<Geom> {
    let mut parts = Vec::new();
    match ty.family() {
        Family::Point => parts.push(Part { kind: 0, pts: vec![vertex(u, ty, false)?] }),
        Family::Multipoint => {
            let n = u.int_in_range(1usize..=6)?;
            let mut pts = Vec::new();
            for _ in 0..n {
                pts.push(vertex(u, ty, false)?);
            }
            parts.push(Part { kind: 0, pts });
        }
        fam => {
            let np = u.int_in_range(1usize..=4)?;
            for pi in 0..np {
                let min = if fam == Family::Polyline { 2 } else if pi == 0 { 1 } else { 0 };
                let n = u.int_in_range(min..=6)?;
                let kind = match fam {
                    Family::Multipatch => u.int_in_range(0i32..=5)?,
                    Family::Polygon => u.int_in_range(0i32..=1)?,
                    _ => 0,
                };
                let mut pts = Vec::new();
                for _ in 0..n {
                    pts.push(vertex(u, ty, false)?);
                }
                parts.push(Part { kind, pts });
            }
        }
    }
    Ok(Geom { ty, parts, bbox: [F(0); 8], m_present: ty.carries_m() })
}

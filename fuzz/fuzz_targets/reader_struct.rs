#![no_main]
// Structured: Unstructured -> file model -> reference encoder. Un-mutated branch: the C03 differential
// oracle. Mutated branch: 1-3 field mutations / truncation, then the C07 / C17 exercise.
include!("common.rs");
use libfuzzer_sys::fuzz_target;
use vlib::kinds::view_shape;
use vlib::oracles::cmp_read;
use vlib::refcodec;

fn run(data: &[u8]) -> arbitrary::Result<()> {
    let mut u = Unstructured::new(data);
    let m = file_model(&mut u)?;
    let enc = refcodec::encode(&m);
    let nmut = u.int_in_range(0u8..=3)?;
    if nmut == 0 {
        // differential: the reader must return the model
        for with_shx in [false, true] {
            let r = vlib::libops::open_mem(&enc.shp, if with_shx { Some(&enc.shx[..]) } else { None });
            let mut r = match r {
                Ok(r) => r,
                Err(e) => die("open-error", &format!("valid file rejected: {:?}", e)),
            };
            let mut n = 0;
            for item in r.iter_shapes() {
                match item {
                    Ok(s) => {
                        if n >= m.recs.len() {
                            die("count", "more shapes than records");
                        }
                        if let Err(e) = cmp_read(&m.recs[n].geom, &view_shape(&s)) {
                            die("decode-differs", &format!("record {}: {}", n, e));
                        }
                    }
                    Err(e) => die("valid-record-rejected", &format!("record {}: {:?}", n, e)),
                }
                n += 1;
            }
            if n != m.recs.len() {
                die("count", &format!("{} shapes for {} records", n, m.recs.len()));
            }
        }
        return Ok(());
    }
    let (mut shp, mut shx) = (enc.shp.clone(), enc.shx.clone());
    for _ in 0..nmut {
        match u.int_in_range(0u8..=3)? {
            0 | 1 if !enc.fields.is_empty() => {
                let f = enc.fields[u.int_in_range(0usize..=enc.fields.len() - 1)?];
                let v: i32 = match u.int_in_range(0u8..=5)? {
                    0 => u.arbitrary()?,
                    1 => [0, 1, -1, i32::MIN, i32::MAX, 1 << 30, (1 << 30) - 1, -(1 << 30)][u.int_in_range(0usize..=7)?],
                    2 => f.value.wrapping_add(1),
                    3 => f.value.wrapping_mul(2),
                    4 => f.value.swap_bytes(),
                    _ => f.value.wrapping_sub(1),
                };
                let t = if f.in_shx { &mut shx } else { &mut shp };
                if f.off + 4 <= t.len() {
                    refcodec::patch_field(t, &f, v);
                }
            }
            2 => {
                let on_shx: bool = u.arbitrary()?;
                let t = if on_shx { &mut shx } else { &mut shp };
                let l = u.int_in_range(0usize..=t.len())?;
                t.truncate(l);
            }
            _ => {
                let on_shx: bool = u.arbitrary()?;
                let t = if on_shx { &mut shx } else { &mut shp };
                if !t.is_empty() {
                    let pos = u.int_in_range(0usize..=t.len() * 8 - 1)?;
                    t[pos / 8] ^= 1 << (pos % 8);
                }
            }
        }
    }
    if let Err(f) = vlib::exercise::exercise(&shp, &shx, true) {
        die(&f.key, &f.msg);
    }
    Ok(())
}

fuzz_target!(|data: &[u8]| {
    vlib::run::install_panic_hook_once();
    let _ = run(data);
});

#![no_main]
// Unstructured -> shapes (constructor inputs) -> ShapeWriter -> independent strict decoder (C02) and
// read back through the library (C01), with the same oracles as the harness.
include!("common.rs");
use libfuzzer_sys::fuzz_target;
use shapefile::Shape;
use vlib::kinds::*;
use vlib::libops::*;
use vlib::refcodec::{self, Mode};

struct Rt<'a>(&'a [Geom], Finish);
impl KindFn for Rt<'_> {
    type Out = ();
    fn call<K: Kind>(self)
    where
        shapefile::Error: From<<K as TryFrom<Shape>>::Error>,
    {
        let shapes: Vec<K> = build_all(self.0, Ctor::Plain);
        let written = views(&shapes);
        let (shp, shx) = match write_bytes(&shapes, true, self.1) {
            Ok(x) => x,
            Err(e) => die("write-error", &e),
        };
        let shx = shx.unwrap();
        // C02
        let d = match refcodec::decode(&shp, Mode::Strict) {
            Ok(d) => d,
            Err(e) => die("malformed", &e),
        };
        if d.recs.len() != written.len() {
            die("count", "decoded record count differs");
        }
        for (i, (r, w)) in d.recs.iter().zip(&written).enumerate() {
            let mut fv = w.clone();
            if fv.ty.family() == Family::Polygon {
                for p in fv.parts.iter_mut() {
                    p.kind = 0;
                }
            }
            if let Err(m) = same_geom(&fv, &r.geom) {
                die("geometry-differs", &format!("record {}: {}", i, m));
            }
        }
        // C04 (index entries)
        match refcodec::decode_shx(&shx) {
            Ok(x) => {
                if x.entries.len() != d.recs.len() || x.entries.iter().zip(&d.recs).any(|(e, r)| e.0 as usize * 2 != r.offset || e.1 as usize * 2 != r.content_len) {
                    die("shx-entry", "index does not address the records");
                }
            }
            Err(e) => die("shx-malformed", &e),
        }
        // C01
        for with in [false, true] {
            let mut r = match open_mem(&shp, if with { Some(&shx[..]) } else { None }) {
                Ok(r) => r,
                Err(e) => die("open-error", &format!("{:?}", e)),
            };
            let mut n = 0;
            for item in r.iter_shapes_as::<K>() {
                match item {
                    Ok(s) => {
                        if n >= written.len() {
                            die("count", "more shapes read than written");
                        }
                        if let Err(m) = same_after_read(&expected_after_read(&written[n]), &s.view()) {
                            die("shape-differs", &format!("shape {}: {}", n, m));
                        }
                    }
                    Err(e) => die("read-error", &format!("{:?}", e)),
                }
                n += 1;
            }
            if n != written.len() {
                die("count", "fewer shapes read than written");
            }
        }
    }
}

fn run(data: &[u8]) -> arbitrary::Result<()> {
    let mut u = Unstructured::new(data);
    let ty = ALL13[u.int_in_range(0usize..=12)?];
    let fin = FINISHES[u.int_in_range(0usize..=2)?];
    let n = u.int_in_range(0usize..=4)?;
    let mut geoms = Vec::new();
    for _ in 0..n {
        geoms.push(input_geom(&mut u, ty)?);
    }
    dispatch(ty, Rt(&geoms, fin));
    Ok(())
}

fuzz_target!(|data: &[u8]| {
    vlib::run::install_panic_hook_once();
    let _ = run(data);
});

#![no_main]
// Raw bytes: the first two bytes choose where the input is split into .shp | .shx.
// Oracle: the C07 / C17 exercise (no panic, bounded iteration, allocation bound).
include!("common.rs");
use libfuzzer_sys::fuzz_target;

fuzz_target!(|data: &[u8]| {
    if data.len() < 2 {
        return;
    }
    let split = u16::from_le_bytes([data[0], data[1]]) as usize;
    let body = &data[2..];
    let cut = if body.is_empty() { 0 } else { split % (body.len() + 1) };
    let (shp, shx) = body.split_at(cut);
    vlib::run::install_panic_hook_once();
    if let Err(f) = vlib::exercise::exercise(shp, shx, true) {
        die(&f.key, &f.msg);
    }
});

#!/bin/bash
# tools/allquick.sh [seed...] — runs every quick check with each seed; prints one line per (seed, property)
cd /verif
seeds=("$@"); [ ${#seeds[@]} -eq 0 ] && seeds=(1)
for s in "${seeds[@]}"; do
  for i in $(seq -w 1 20); do
    id=C$i
    st=$(date +%s.%N)
    out=$(VERIF_SEED=$s ./check $id quick 2>&1); code=$?
    en=$(date +%s.%N)
    printf "seed=%s %s exit=%s %.1fs %s\n" "$s" "$id" "$code" "$(echo "$en - $st" | bc)" "$(echo "$out" | grep -c '^VIOLATION')viol $(echo "$out" | grep -c '^KNOWN-FINDING')known"
    [ $code -ne 0 ] && echo "$out" | grep -A1 '^VIOLATION\|INCONCLUSIVE' | head -6
  done
done

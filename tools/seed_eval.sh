#!/bin/bash
# tools/seed_eval.sh <ID> <candidate_dir> [name]
# 1. confirms the candidate in a scratch worktree (existing tests pass with the change, demo fails with it and
#    passes without it); 2. runs the property's quick check against the change applied to /repo and undoes it;
# 3. stores the candidate under /verif/seeded/<name>/ with what was run.
# STAGE=confirm: only step 1 (nothing touches /repo's working tree; result kept in <candidate_dir>/_confirm.txt);
# STAGE=check: steps 2-3, reusing that file.
set -u
id="$1"; cand="$2"; name="${3:-$id}"
stage="${STAGE:-both}"
if [ "$stage" = check ]; then
  [ -f "$cand/_confirm.txt" ] || { echo "[$name] no _confirm.txt"; exit 4; }
  t1=$(sed -n 1p "$cand/_confirm.txt"); d1=$(sed -n 2p "$cand/_confirm.txt"); d2=$(sed -n 3p "$cand/_confirm.txt")
  cd /verif
else
feat=""; [ "$id" = "C20" ] && feat="--features geo-types,geo-traits"
wt=/tmp/wtv/$name
rm -rf "$wt"; git -C /repo worktree prune
git -C /repo worktree add --detach "$wt" HEAD >/dev/null 2>&1 || { echo "cannot create worktree"; exit 2; }
res() { echo "$1" | tee -a "$wt/_log"; }
cd "$wt"
if ! git apply "$cand/patch.diff" 2>"$wt/_apply.err"; then res "APPLY_FAILED $(cat $wt/_apply.err | head -3)"; cd /; git -C /repo worktree remove --force "$wt"; exit 3; fi
export CARGO_NET_OFFLINE=true
t1=$(cargo test --offline $feat 2>&1 | grep -E '^test result|error(\[|:)' | tr '\n' ';')
suite_ok=yes; echo "$t1" | grep -q 'FAILED\|error' && suite_ok=no
# doc tests race on points.shp occasionally: retry once
if [ $suite_ok = no ]; then t1=$(cargo test --offline $feat 2>&1 | grep -E '^test result|error(\[|:)' | tr '\n' ';'); suite_ok=yes; echo "$t1" | grep -q 'FAILED\|error' && suite_ok=no; fi
cp "$cand/demo.rs" tests/demo.rs
d1=$(cargo test --offline $feat --test demo 2>&1 | grep -E '^test result|error(\[|:)' | tr '\n' ';')
demo_fails_with=no; echo "$d1" | grep -q 'FAILED' && demo_fails_with=yes
git checkout -- src
d2=$(cargo test --offline $feat --test demo 2>&1 | grep -E '^test result|error(\[|:)' | tr '\n' ';')
demo_passes_without=no; echo "$d2" | grep -q 'test result: ok' && ! echo "$d2" | grep -q 'FAILED\|error' && demo_passes_without=yes
cd /verif
git -C /repo worktree remove --force "$wt"
echo "[$name] existing suite with change: $suite_ok | demo fails with change: $demo_fails_with | demo passes without: $demo_passes_without"
if [ "$suite_ok $demo_fails_with $demo_passes_without" != "yes yes yes" ]; then echo "[$name] CANDIDATE NOT CONFIRMED: $t1 // $d1 // $d2"; exit 4; fi
printf '%s\n%s\n%s\n' "$t1" "$d1" "$d2" > "$cand/_confirm.txt"
[ "$stage" = confirm ] && exit 0
fi
# run the check against the change
if ! git -C /repo diff --quiet; then echo "/repo is dirty, refusing"; exit 2; fi
git -C /repo apply "$cand/patch.diff" || { echo "apply to /repo failed"; exit 3; }
out=$(./check "$id" quick 2>&1); code=$?
git -C /repo checkout -- . ; git -C /repo status --short | grep -v '^??' && echo "WARNING /repo not clean"
viol=$(echo "$out" | grep -A1 '^VIOLATION' | head -4)
echo "[$name] check $id quick on the change: exit $code"; echo "$viol" | sed 's/^/    /' | cut -c1-400
mkdir -p "seeded/$name"
cp "$cand/patch.diff" "seeded/$name/patch.diff"; cp "$cand/demo.rs" "seeded/$name/demo.rs"
python3 - "$cand/meta.json" "seeded/$name/meta.json" "$id" "$code" "$viol" "$t1" "$d1" "$d2" <<'PY'
import json,sys
src,dst,pid,code,viol,t1,d1,d2=sys.argv[1:9]
try: m=json.load(open(src))
except Exception: m={}
m['property']=pid
m['confirmed_by_verifier']={'existing_suite_with_change':t1,'demo_with_change':d1,'demo_without_change':d2}
m['check_result']={'command':'./check %s quick'%pid,'exit':int(code),'detected':int(code)==1,'violation':viol}
json.dump(m,open(dst,'w'),indent=1)
PY
exit 0

#!/bin/bash
# tools/allthorough.sh [ID ...] — runs thorough checks sequentially, logs to target/thorough-<ID>.log
cd /verif
ids=("$@"); [ ${#ids[@]} -eq 0 ] && ids=($(seq -f "C%02g" 1 20))
for id in "${ids[@]}"; do
  st=$(date +%s)
  ./check $id thorough > target/thorough-$id.log 2>&1; code=$?
  en=$(date +%s)
  echo "$id exit=$code $((en-st))s $(grep -c '^VIOLATION' target/thorough-$id.log) violation(s)" | tee -a target/thorough-summary.txt
  cp evidence/$id.json target/thorough-evidence-$id.json 2>/dev/null
done

#!/bin/bash
# tools/stage_check.sh <suffix...> — second stage of tools/seed_eval.sh for candidates already confirmed and stored
# under seeded/Cxx<suffix>/ (with _confirm.txt): applies each to /repo, runs the property's quick check, undoes it,
# and records the result in the candidate's meta.json.
cd /verif
for suf in "$@"; do
  for i in $(seq -w 1 20); do
    id=C$i; name=$id$suf
    [ -d seeded/$name ] || continue
    STAGE=check tools/seed_eval.sh $id /verif/seeded/$name $name 2>/dev/null | grep "check $id quick" 
  done
done

#!/usr/bin/env python3
"""Regenerates /verif/MANIFEST.json from the table below (keeps it schema-valid while checks are added)."""
import json, sys, os
HERE = os.path.dirname(os.path.dirname(os.path.abspath(__file__)))

# id -> (category, technique, level text, level note, design ref)
CHECKS = {
 "C02": ("exploration", "property-based testing (proptest): differential against an independent strict ESRI decoder/validator",
         "Every .shp left behind by the writer (drop / finalize / write_shapes, finalize calls and rejected writes of another type at generated positions in the history, with and without index destination, n>=0, large files) must be accepted by a strict decoder written from the whitepaper that shares no code with the library, and decode to the geometry handed in. Bounded random exploration.",
         "Trusted: vlib/refcodec.rs (self-tested at start-up against the third-party fixtures in /repo/tests/data: encode(decode(f)) == f).", "DESIGN.md §3 C02, §2.1"),
 "C04": ("exploration", "property-based testing (proptest): independent parse of the .shx against record offsets found by the independent .shp decoder, plus reader consequences",
         "Index entries, index header and the reader-level consequences (count, random access == sequential, out-of-range, size_hint) are checked for generated sequences of unequal record sizes, in memory and via from_path. Bounded random exploration.",
         "Trusted: independent decoder for record offsets.", "DESIGN.md §3 C04"),
 "C05": ("exploration", "property-based testing (proptest): reference fold oracle with planted extremes",
         "Accessor boxes, record box bytes and header box bytes are compared numerically with a plain </> fold over generated vertex sets in which minima/maxima are planted at generated positions with special values (+-inf, f64::MAX/MIN, +-0).",
         "Trusted: the reference fold; NaN excluded as the property states; no claim for multipatch header M or files with no-data measures.", "DESIGN.md §3 C05"),
 "C06": ("exploration", "property-based testing (proptest) with the 13x14 (requested, actual) type matrix enumerated completely on every generated file",
         "read_as::<S>() is compared with convert_shapes_to_vec_of::<S>(read()) for every requested type on every generated file; identity chain of type reports and the enum round trip are checked for every generated value.",
         "Trusted: variant_ty() (a match on the enum variant) as the independent statement of a value's type.", "DESIGN.md §3 C06"),
 "C18": ("exploration", "bounded-exhaustive grid enumeration + proptest for larger shapes; independent whitepaper size formula",
         "size_in_bytes() == bytes emitted by write_to == independent layout formula on a complete (parts x length pattern) grid and on random larger shapes; record content-length word == (size+4)/2.",
         "Trusted: the size formula transcribed from the whitepaper.", "DESIGN.md §3 C18"),
 "C19": ("exploration", "exhaustive enumeration of all 2^32 codes against an independent table",
         "ShapeType::from / as i32 / predicates / Display checked for every 32-bit code (complete); the from-a-file path (Header::read_from, Shape::read_from) exhaustively in thorough and on a structured + generated subset in quick.",
         "Trusted: the 14-row table in vlib/model.rs.", "DESIGN.md §3 C19"),
 "C03": ("exploration", "property-based testing (proptest): differential against a reference encoder driven by a generated file model",
         "File models drawn directly (foreign layouts: absent M blocks, 24-byte PointZ, null records, empty/zero parts, arbitrary boxes and record numbers, trailing bytes) are encoded by an independent reference encoder; the reader's output must equal the model record by record.",
         "Trusted: vlib/refcodec.rs encoder (pinned to third-party fixtures); ring roles asserted only on exactly computable non-zero areas.", "DESIGN.md §3 C03"),
 "C09": ("exploration", "bounded-exhaustive enumeration of write/finalize histories; metamorphic comparison with write-and-drop plus independent decoding after each finalize",
         "All interleavings of {write a, write b, finalize} up to the stated length, for every type, ending and index configuration: final bytes equal the write-and-drop reference, each finalize leaves flushed complete files, idle finalize does no I/O. Complete within the bound.",
         "Trusted: logging destination double (vlib/io.rs); one generated pair of shapes per type and seed.", "DESIGN.md §3 C09"),
 "C10": ("exploration", "bounded-exhaustive enumeration of histories over all 156 ordered type pairs; op-log comparison across rejected calls",
         "Every rejected write (write_shape, write_shape_and_record, and the consuming write_shapes / write_shapes_and_records as last call) must return the exact mismatch error, issue no write call and leave the bytes of all destinations (incl. dbf) unchanged; final files equal those of the history without the rejected calls. Complete within the bound.",
         "Trusted: logging destination double.", "DESIGN.md §3 C10"),
 "C14": ("exploration", "property-based testing (proptest): reference encoder with generated physical permutation and filler runs",
         "Files whose records are physically permuted and separated by generated filler (zeros, random, header-like, whole fake records) are read with their index; iteration must follow the index alone and agree with random access and the count.",
         "Trusted: reference encoder; filler lengths are even (index offsets are in 16-bit words).", "DESIGN.md §3 C14"),
 "C15": ("exploration", "bounded-exhaustive enumeration of reader call histories against an explicit reference state machine",
         "All sequences (up to the stated length) of iterate-j / read_nth / seek / shape_count on ShapeReader with index, of iterate / seek / count on the complete Reader (rows carry their index), and of iterations on an index-less reader are compared with a ~40-line reference model. Complete within the bound.",
         "Trusted: the reference model; a read_nth returning None is modelled as not moving the reader.", "DESIGN.md §3 C15"),
 "C11": ("fault_enumeration", "fault enumeration: every crash point (op prefix x byte cut) of generated workloads, replayed into persisted images and read back",
         "For generated workloads every crash state of the .shp is enumerated and crossed with (sampled or all) crash states of the .shx; readers on the persisted images must fail or yield a bit-exact prefix of what was written, and completed finalizes must stay readable.",
         "Crash model = prefixes of the Write/Seek/flush calls on the destination incl. byte cuts; OS-level reordering and BufWriter buffering are outside the model.", "DESIGN.md §3 C11"),
 "C12": ("fault_enumeration", "fault enumeration: every k-th destination operation fails (one-shot and persistent), plus short-write schedules",
         "For generated workloads each write/seek/flush on each destination is failed in turn; the API call in progress must return the marked I/O error, a failed finalize must be retryable to byte-identical files, drop must not panic; short-write schedules must give identical bytes.",
         "Fault model = errors returned by the destination's Write/Seek methods.", "DESIGN.md §3 C12"),
 "C13": ("fault_enumeration", "fault enumeration: every truncation length, every k-th source operation failing, short-read schedules",
         "For generated valid files (reference encoder) every truncation of .shp and .shx, every failing read/seek of a full traversal and several short-read schedules are run against a model derived from the independent encoder's record offsets.",
         "Fault model = errors / short counts returned by the source's Read/Seek methods.", "DESIGN.md §3 C13"),
 "C07": ("exploration", "structured fuzzing in supervised worker processes: exhaustive field x boundary-value grid and every truncation/extension over generated valid files, proptest mutation stacks and raw bytes; libFuzzer targets complement it",
         "Every reader entry point is driven over each generated input under catch_unwind with overflow checks and debug assertions on; panics, aborts (observed by the supervising parent) and iterators exceeding an input-size-derived item cap are violations.",
         "Trusted: the item cap as the finite stand-in for 'runs forever'; a violation confined to one magic 32-bit value that is neither a boundary value nor derived from another field can be missed.", "DESIGN.md §3 C07"),
 "C17": ("exploration", "structured fuzzing with a counting global allocator (thread-local window around every reader call); dedicated generator of mutually consistent but unbacked counts",
         "Peak bytes requested during any single reader call must stay <= 64 x input + 16 KiB on every input of the C07 families and on files whose declared counts, record length, header length and index entry agree with each other but are not backed by data.",
         "Trusted: the harness allocator sees every request of the executing thread; sources are borrowed in-memory slices so only the library allocates.", "DESIGN.md §3 C17"),
 "C08": ("exploration", "property-based testing over call histories (proptest): model of accepted pairs, independent counting of shp records / shx entries / dbf rows after every call, read-back through every complete-reader route",
         "Histories mixing accepted writes, shapes of another type and rows dbase rejects are run through Writer (memory and both from_path routes); entry counts must stay equal after every call and every reader route must return exactly the accepted pairs in order. One open known finding (K1) is keyed on the row-rejection call class.",
         "Trusted: dbf row counting from the dbf header's header/record length fields; dbase as the row codec.", "DESIGN.md §3 C08"),
 "C16": ("exploration", "property-based testing (proptest): exact integer shoelace oracle on the dyadic domain, bit-level vertex-preservation oracle on all non-NaN doubles, macro-vs-constructor differential",
         "Rings of every declared role, open/closed/degenerate, are pushed through new / with_rings / with_parts / polygon! / multipatch!; closure, vertex preservation up to whole-ring reversal, orientation by exact signed area, idempotent rebuild and untouched strips/fans are asserted.",
         "Trusted: i128 shoelace sum; the exactness criterion for f64 evaluation in vlib/model.rs.", "DESIGN.md §3 C16"),
 "C20": ("exploration", "property-based testing (proptest) in a separate binary built with the geo-types and geo-traits features: round-trip and grouping oracles, refusal checks under catch_unwind, geo-traits index probing",
         "shape->geo->shape and geo->shape->geo conversions are compared coordinate by coordinate (bit patterns) and group by group; refused inputs must give Err; every index below dim().size() must be readable through nth / nth_or_panic / nth_unchecked.",
         "Trusted: geo-types' own ring closing as reference on the geo side; orientation asserted only on exact non-zero areas.", "DESIGN.md §3 C20"),
 "C01": ("exploration", "property-based testing (proptest, seeded, shrinking): write->read round trip with an explicit normalisation model",
         "Generated shape sequences of all 13 types (incl. files with >128 records, >256 parts, >64 points per part; write histories with mid-way finalize) are written through ShapeWriter (with and without index destination) and read back through every route (generic/typed x iterate/collect/random access x with/without .shx x memory/disk, plus a sequential read on a reader that served random accesses); an oracle built from accessor views as f64 bit patterns decides equality. Thorough adds a libFuzzer round-trip target. Bounded exploration, not proof.",
         "Trusted: proptest generators, the accessor view of constructed values; ring roles asserted only where the signed area is exactly computable and non-zero.", "DESIGN.md §3 C01"),
}

def main():
    props = [json.loads(l) for l in open(os.path.join(HERE, "properties.jsonl"))]
    checks = []
    na = []
    for p in props:
        pid = p["id"]
        if pid in CHECKS:
            cat, tech, text, note, ref = CHECKS[pid]
            checks.append({
                "property_id": pid,
                "quick_cmd": f"./check {pid} quick",
                "thorough_cmd": f"./check {pid} thorough",
                "evidence_file": f"/verif/evidence/{pid}.json",
                "replay_cmd_template": f"./check {pid} --replay {{path}}",
                "engine": "vcheck-geo" if pid == "C20" else "vcheck",
                "level_claimed": {"category": cat, "text": text, "design_ref": ref},
                "level_note": note,
                "technique": tech,
            })
        else:
            na.append({"property_id": pid, "reason": "check not built yet in this session (planned in DESIGN.md §3); not claimed until its machinery exists and is silent on the unchanged tree"})
    m = {
        "version": 1,
        "setup_cmd": "cd /verif && CARGO_NET_OFFLINE=true cargo build --release --offline -p vcheck -p vcheck-geo",
        "hooks": {
            "guard": "--cfg tmontaigu_shapefile_rs_verif",
            "enable": "none needed: every observation point is public API, destination/source bytes, or the harness's own allocator; checks build /repo as a path dependency without any cfg",
            "baseline_off_cmd": "cd /repo && cargo test --workspace --no-fail-fast --offline",
            "source_commits": [],
            "add_only": True,
        },
        "engines": [
            {"name": "vcheck", "path": "/verif/harness", "serves_properties": [c["property_id"] for c in checks if c["property_id"] != "C20"],
             "kind_free_text": "Rust binary: proptest TestRunner driven from main (16 seeded workers), bounded-exhaustive enumerators, independent ESRI codec as oracle, logging/faulting I/O doubles, counting allocator"},
            {"name": "vcheck-geo", "path": "/verif/harness-geo", "serves_properties": [c["property_id"] for c in checks if c["property_id"] == "C20"],
             "kind_free_text": "same engine built against shapefile with the geo-types and geo-traits features"},
            {"name": "libfuzzer-targets", "path": "/verif/fuzz", "serves_properties": ["C01", "C02", "C03", "C07", "C17"],
             "kind_free_text": "cargo-fuzz crate (nightly, ASan, debug assertions): roundtrip, reader_struct, reader_raw; run by tools/fuzzstage.sh in the thorough tier with the same oracles (vlib) inside the targets"},
        ],
        "checks": checks,
        "notes": "All checks rebuild /verif's harness against /repo's working tree (cargo path dependency) before running. Exit 2 = inconclusive (build failure / watchdog), never a violation. VERIF_SEED selects the PRNG stream; VERIF_SCALE multiplies case counts.",
        "not_applicable": na,
    }
    json.dump(m, open(os.path.join(HERE, "MANIFEST.json"), "w"), indent=1)
    print(f"MANIFEST.json: {len(checks)} checks, {len(na)} not claimed")

if __name__ == "__main__":
    main()

#!/usr/bin/env python3
"""Regenerates /verif/MANIFEST.json from the table below (keeps it schema-valid while checks are added)."""
import json, sys, os
HERE = os.path.dirname(os.path.dirname(os.path.abspath(__file__)))

# id -> (category, technique, level text, level note, design ref)
CHECKS = {
 "C01": ("exploration", "property-based testing (proptest, seeded, shrinking): write->read round trip with an explicit normalisation model",
         "Generated shape sequences of all 13 types are written through ShapeWriter and read back through every route (generic/typed x iterate/collect/random access x with/without .shx x memory/disk); an oracle built from accessor views as f64 bit patterns decides equality. Bounded random exploration, not proof.",
         "Trusted: proptest generators, the accessor view of constructed values; ring roles asserted only where the signed area is exactly computable and non-zero.", "DESIGN.md §3 C01"),
}

def main():
    props = [json.loads(l) for l in open(os.path.join(HERE, "properties.jsonl"))]
    checks = []
    na = []
    for p in props:
        pid = p["id"]
        if pid in CHECKS:
            cat, tech, text, note, ref = CHECKS[pid]
            checks.append({
                "property_id": pid,
                "quick_cmd": f"./check {pid} quick",
                "thorough_cmd": f"./check {pid} thorough",
                "evidence_file": f"/verif/evidence/{pid}.json",
                "replay_cmd_template": f"./check {pid} --replay {{path}}",
                "engine": "vcheck-geo" if pid == "C20" else "vcheck",
                "level_claimed": {"category": cat, "text": text, "design_ref": ref},
                "level_note": note,
                "technique": tech,
            })
        else:
            na.append({"property_id": pid, "reason": "check not built yet in this session (planned in DESIGN.md §3); not claimed until its machinery exists and is silent on the unchanged tree"})
    m = {
        "version": 1,
        "setup_cmd": "cd /verif && CARGO_NET_OFFLINE=true cargo build --release --offline -p vcheck -p vcheck-geo",
        "hooks": {
            "guard": "--cfg tmontaigu_shapefile_rs_verif",
            "enable": "none needed: every observation point is public API, destination/source bytes, or the harness's own allocator; checks build /repo as a path dependency without any cfg",
            "baseline_off_cmd": "cd /repo && cargo test --workspace --no-fail-fast --offline",
            "source_commits": [],
            "add_only": True,
        },
        "engines": [
            {"name": "vcheck", "path": "/verif/harness", "serves_properties": [c["property_id"] for c in checks if c["property_id"] != "C20"],
             "kind_free_text": "Rust binary: proptest TestRunner driven from main (16 seeded workers), bounded-exhaustive enumerators, independent ESRI codec as oracle, logging/faulting I/O doubles, counting allocator"},
            {"name": "vcheck-geo", "path": "/verif/harness-geo", "serves_properties": [c["property_id"] for c in checks if c["property_id"] == "C20"],
             "kind_free_text": "same engine built against shapefile with the geo-types and geo-traits features"},
        ],
        "checks": checks,
        "notes": "All checks rebuild /verif's harness against /repo's working tree (cargo path dependency) before running. Exit 2 = inconclusive (build failure / watchdog), never a violation. VERIF_SEED selects the PRNG stream; VERIF_SCALE multiplies case counts.",
        "not_applicable": na,
    }
    json.dump(m, open(os.path.join(HERE, "MANIFEST.json"), "w"), indent=1)
    print(f"MANIFEST.json: {len(checks)} checks, {len(na)} not claimed")

if __name__ == "__main__":
    main()

#!/usr/bin/env python3
"""tools/mkprompts.py <round-dir> <suffixes-of-earlier-rounds...>
Creates <round-dir>/Cxx worktrees of /repo (HEAD) and writes Cxx/_PROMPT.txt: the property text (nothing else from
/verif) plus one-paragraph summaries of the earlier seeded changes for that property, which must not be repeated."""
import json, os, subprocess, sys
rd = sys.argv[1]; earlier = sys.argv[2:]
props = [json.loads(l) for l in open('/verif/properties.jsonl')]
os.makedirs(rd, exist_ok=True)
only = os.environ.get('VERIF_ONLY', '').split()
for p in props:
    pid = p['id']; wt = f'{rd}/{pid}'
    if only and pid not in only:
        continue
    if not os.path.isdir(wt):
        subprocess.run(['git', '-C', '/repo', 'worktree', 'add', '--detach', wt, 'HEAD'], check=True, capture_output=True)
    prev = []
    for suf in earlier:
        mp = f'/verif/seeded/{pid}{suf}/meta.json'
        if os.path.exists(mp):
            m = json.load(open(mp))
            prev.append((m.get('summary') or '')[:380] + ' || needs: ' + (m.get('needs') or '')[:220] + ' || files: ' + ', '.join(m.get('files') or []))
    prevtxt = '\n'.join(f' ({i+1}) "{t}"' for i, t in enumerate(prev))
    quant = p.get('quantifier') or ''
    if isinstance(quant, dict):
        quant = quant.get('text', '')
    feat = ' For this property build and test with `--features geo-types,geo-traits` (cargo test --offline --features geo-types,geo-traits).' if pid == 'C20' else ''
    txt = f"""You are working in a scratch git worktree of the Rust crate tmontaigu/shapefile-rs (reads and writes ESRI shapefiles: .shp/.shx binary geometry records, .dbf via the dbase crate). The worktree is at {wt} . Work ONLY inside that directory: do not read or touch /repo, /verif, or any other directory under {rd}. There is no network; always pass --offline to cargo.{feat} Do NOT use `git stash` (it is shared between worktrees): to test without your change use `git diff -- src > {wt}/_mine.diff && git apply -R {wt}/_mine.diff`, and re-apply with `git apply {wt}/_mine.diff`.

Here is a semantic property the library is supposed to satisfy:

PROPERTY {pid} — {p.get('title','')}

Statement: {p.get('statement') or p.get('text')}

Quantified over: {quant}

{len(prev)} earlier contributors already produced these changes for this property — do NOT repeat any of them or a close variant, and do not reuse their code sites or trigger conditions:
{prevtxt}

YOUR TASK: produce ONE realistic change to the library source (files under src/) that BREAKS this property in a way that is NEW in both code site and trigger, while the crate still compiles and its whole existing test-suite still passes (`cargo test --offline` must be green: unit tests, integration tests under tests/, and doc tests). It should look like something a real contributor could plausibly introduce (a refactoring, optimisation, "robustness" tweak, feature addition, dependency-style cleanup...). It must be a genuine violation of the property AS STATED and stay strictly inside what the property quantifies over (re-read the "Quantified over" text: if your trigger needs something outside it, pick another idea). Prefer a change whose effect is visible through ORDINARY use of the public API (typical shapes, typical call sequences a user of the crate writes): the most valuable change is one that a maintainer could merge by accident, that ordinary users would then hit, and that the existing tests do not see. Keep it small and plausible; it must differ in code site and trigger from every earlier idea listed above (read their `files:` and `needs:` notes). The property will be checked by a randomised / enumerative test generator that already knows the ideas above. Do not edit or delete existing tests.

DELIVERABLES, all under {wt}/_out/ (create the directory):
1. patch.diff — the output of `git diff -- src/` (library source only).
2. demo.rs — a self-contained integration test (it will be copied to tests/demo.rs; use only the crate's public API, `extern crate shapefile;`) containing one or more #[test] functions that FAIL with your change applied and PASS on the unchanged source.
3. meta.json — {{"property": "{pid}", "summary": "<one paragraph: what the change does>", "needs": "<what specific condition is needed for the violation to manifest>", "files": ["src/..."], "ran": ["<each command you ran to verify, with its outcome>"]}}

VERIFY YOURSELF before finishing: (a) with the change applied, `cargo test --offline` passes (without your demo), and with demo.rs copied to tests/demo.rs the demo FAILS; (b) with the change reverted, the demo PASSES. Then leave the worktree with your change APPLIED to src/ and with tests/demo.rs REMOVED. Final answer: 5-10 lines — what you changed, what is needed to trigger it, and the verification results.
"""
    open(f'{wt}/_PROMPT.txt', 'w').write(txt)
print('ok')

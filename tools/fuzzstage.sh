#!/bin/bash
# tools/fuzzstage.sh <ID> <target> <runs-per-worker> [workers]
# Coverage-guided stage of the thorough tier: builds the libFuzzer target against /repo's working tree
# (nightly, AddressSanitizer, debug assertions), runs <workers> independent campaigns bounded by -runs from a
# fresh copy of the committed seed corpus, and merges the result into evidence/<ID>.json.
# exit 0 = no crash, 1 = VIOLATION line(s) printed, 2 = inconclusive (build failure / wall-clock guard).
cd /verif || exit 2
id="$1"; target="$2"; runs="$3"; workers="${4:-16}"
seed="${VERIF_SEED:-1}"
guard="${VERIF_FUZZ_GUARD_S:-2400}"
export CARGO_NET_OFFLINE=true
work="target/fuzzwork/$id-$target"
rm -rf "$work"; mkdir -p "$work/artifacts" replays
if ! cargo +nightly fuzz build --fuzz-dir fuzz --target-dir target/fuzz "$target" >"$work/build.log" 2>&1; then
  echo "INCONCLUSIVE property=$id: building fuzz target $target failed" >&2; grep -A6 '^error' "$work/build.log" | head -40 >&2; exit 2
fi
bin="target/fuzz/x86_64-unknown-linux-gnu/release/$target"
[ -x "$bin" ] || { echo "INCONCLUSIVE property=$id: $bin missing" >&2; exit 2; }
start=$(date +%s)
pids=()
for w in $(seq 1 "$workers"); do
  c="$work/corpus-$w"; mkdir -p "$c"
  # half the workers start from the committed seeds, half from an empty corpus
  if [ $((w % 2)) -eq 1 ] && [ "$target" = "reader_raw" ]; then cp corpus/raw/* "$c"/ 2>/dev/null; fi
  timeout "$guard" "$bin" "$c" -runs="$runs" -seed=$((seed * 1000 + w)) -len_control=0 -max_len=4096 \
     -artifact_prefix="$work/artifacts/w$w-" -print_final_stats=1 -rss_limit_mb=4096 -malloc_limit_mb=1024 >"$work/log-$w.txt" 2>&1 &
  pids+=($!)
done
rc_guard=0
for p in "${pids[@]}"; do wait "$p"; r=$?; [ $r -eq 124 ] && rc_guard=1; done
end=$(date +%s)
execs=$(grep -h 'stat::number_of_executed_units' "$work"/log-*.txt | awk '{s+=$2} END {print s+0}')
corp=$(ls "$work"/corpus-*/ 2>/dev/null | wc -l)
ncrash=0
for a in "$work"/artifacts/*; do
  [ -f "$a" ] || continue
  ncrash=$((ncrash+1))
  dst="replays/$id-fuzz-$target-$(basename "$a")"
  cp "$a" "$dst"
  w=$(basename "$a" | sed 's/-.*//')
  echo "VIOLATION property=$id replay=/verif/$dst"
  grep -h 'ORACLE FAILURE\|panicked at\|ERROR: ' "$work/log-${w#w}.txt" 2>/dev/null | head -3 | sed 's/^/  /' | cut -c1-500
done
python3 - "$id" "$target" "$runs" "$workers" "$execs" "$corp" "$ncrash" "$((end-start))" <<'PY'
import json,sys
pid,target,runs,workers,execs,corp,ncrash,wall=sys.argv[1:9]
p='/verif/evidence/%s.json'%pid
try: e=json.load(open(p))
except Exception: sys.exit(0)
c=e['coverage']
c.setdefault('libfuzzer_campaigns',[]).append({'target':target,'workers':int(workers),'runs_per_worker':int(runs),'executed_units':int(execs),'corpus_files':int(corp),'crash_artifacts':int(ncrash),'wall_s':int(wall),
  'note':'coverage-guided libFuzzer (nightly, ASan, debug assertions); odd workers start from /verif/corpus, even ones from an empty corpus'})
c['evaluations']=int(c.get('evaluations',0))+int(execs)
e['violations']=int(e.get('violations',0))+int(ncrash)
e['wall_s']=float(e.get('wall_s',0))+float(wall)
json.dump(e,open(p,'w'),indent=2)
PY
echo "[$id] libFuzzer $target: $workers workers x $runs runs, $execs executions, $corp corpus files, $ncrash crash artifact(s), $((end-start))s" >&2
[ "$ncrash" -gt 0 ] && exit 1
[ "$rc_guard" -eq 1 ] && { echo "INCONCLUSIVE property=$id: fuzz wall-clock guard ($guard s) expired" >&2; exit 2; }
exit 0

#!/bin/bash
# tools/cross_eval.sh <seeded-name> <ID> [ID ...] — applies seeded/<name>/patch.diff to /repo, runs the quick
# checks named, reverts. Prints one line per check.
cd /verif
name="$1"; shift
if ! git -C /repo diff --quiet; then echo "/repo is dirty, refusing"; exit 2; fi
git -C /repo apply "/verif/seeded/$name/patch.diff" || { echo "apply failed"; exit 3; }
for id in "$@"; do
  out=$(timeout 900 ./check "$id" quick 2>&1); code=$?
  echo "[$name] $id exit=$code $(echo "$out" | grep -A1 '^VIOLATION' | sed -n 2p | cut -c1-220)"
done
git -C /repo checkout -- .

#!/usr/bin/env python3
"""Sensitivity sweep: applies one hand-written mutant at a time to /repo (textual replacement), runs the quick
check of the property it targets, reverts, and reports caught / missed. /repo is always restored.
usage: tools/sensitivity.py [ID ...]      (no ID = all)"""
import subprocess, sys, json, os, time

R = '/repo/src/'
# (property, name, file, old, new)
M = [
 ("C01", "zm-block-order-swapped-on-write", "record/io.rs",
  ".and_then(|wrt| wrt.write_bbox_z_range())\n            .and_then(|wrt| wrt.write_zs())\n            .and_then(|wrt| wrt.write_bbox_m_range())\n            .and_then(|wrt| wrt.write_ms())\n    }",
  ".and_then(|wrt| wrt.write_bbox_m_range())\n            .and_then(|wrt| wrt.write_ms())\n            .and_then(|wrt| wrt.write_bbox_z_range())\n            .and_then(|wrt| wrt.write_zs())\n    }"),
 ("C01", "drop-measure-normalisation", "record/io.rs",
  "*point.m_mut() = f64::max(source.read_f64::<LittleEndian>()?, NO_DATA);", "*point.m_mut() = source.read_f64::<LittleEndian>()?;"),
 ("C01", "measures-read-for-first-part-only", "record/io.rs",
  "        for part_points in self.parts.iter_mut() {\n            read_ms_into(self.source, part_points)?;\n        }",
  "        for part_points in self.parts.iter_mut().take(1) {\n            read_ms_into(self.source, part_points)?;\n        }"),
 ("C01", "pointz-writes-m-where-z-belongs", "record/point.rs",
  "        dest.write_f64::<LittleEndian>(self.z)?;\n        dest.write_f64::<LittleEndian>(self.m)?;", "        dest.write_f64::<LittleEndian>(self.m)?;\n        dest.write_f64::<LittleEndian>(self.z)?;"),
 ("C02", "header-length-3-words-per-record", "writer.rs",
  "self.header.file_length += record_size as i32 + RecordHeader::SIZE as i32 / 2;", "self.header.file_length += record_size as i32 + 3;"),
 ("C02", "record-length-omits-type-code", "writer.rs",
  "let record_size = (shape.size_in_bytes() + std::mem::size_of::<i32>()) / 2;", "let record_size = shape.size_in_bytes() / 2;"),
 ("C02", "nonzero-reserved-word", "header.rs",
  "        let skip: [u8; SIZE_OF_SKIP] = [0; SIZE_OF_SKIP];\n        dest.write_all(&skip)?;", "        let mut skip: [u8; SIZE_OF_SKIP] = [0; SIZE_OF_SKIP];\n        skip[19] = 1;\n        dest.write_all(&skip)?;"),
 ("C02", "little-endian-record-number", "record/mod.rs",
  "        dest.write_i32::<BigEndian>(self.record_number)?;", "        dest.write_i32::<byteorder::LittleEndian>(self.record_number)?;"),
 ("C02", "part-offsets-start-at-first-length", "record/io.rs",
  "            self.dst.write_i32::<LittleEndian>(sum)?;\n            sum += i;", "            sum += i;\n            self.dst.write_i32::<LittleEndian>(sum)?;"),
 ("C03", "multipointz-size-constant-wrong", "record/multipoint.rs",
  "        size += 2 * size_of::<f64>(); // Z Range", "        size += 3 * size_of::<f64>(); // Z Range"),
 ("C03", "remove-24-byte-pointz", "record/point.rs",
  "        if record_size == 3 * size_of::<f64>() as i32 {\n            let point = Self::read_xyz(source)?;\n            Ok(point)\n        } else if", "        if false {\n            let point = Self::read_xyz(source)?;\n            Ok(point)\n        } else if"),
 ("C03", "default-measure-zero", "record/point.rs",
  "            x,\n            y,\n            z,\n            m: NO_DATA,\n        })", "            x,\n            y,\n            z,\n            m: 0.0,\n        })"),
 ("C03", "end-of-file-test-gt", "reader.rs",
  "} else if *self.current_pos >= self.file_length {", "} else if *self.current_pos > self.file_length {"),
 ("C04", "index-entry-after-advancing-length", "writer.rs",
  "                offset: self.header.file_length,\n", "                offset: self.header.file_length + record_size as i32 + 4,\n"),
 ("C04", "index-length-without-type-word", "writer.rs",
  "                record_size: record_size as i32,\n            }\n            .write_to(shx_dest)?;", "                record_size: record_size as i32 - 2,\n            }\n            .write_to(shx_dest)?;"),
 ("C04", "shx-header-length-8n", "writer.rs",
  "+ ((self.rec_num - 1) as i32 * 2 * size_of::<i32>() as i32 / 2);", "+ ((self.rec_num - 1) as i32 * 2 * size_of::<i32>() as i32);"),
 ("C04", "size-hint-returns-total", "reader.rs",
  "                let remaining = s.len().saturating_sub(*self.next_index);", "                let remaining = s.len();"),
 ("C05", "f64-min-inverted", "writer.rs",
  "pub(crate) fn f64_min(a: f64, b: f64) -> f64 {\n    if a < b {", "pub(crate) fn f64_min(a: f64, b: f64) -> f64 {\n    if a > b {"),
 ("C05", "skip-last-part-in-from-parts", "record/bbox.rs",
  "        for part in &parts[1..] {", "        for part in &parts[1..parts.len().max(2) - 1] {"),
 ("C05", "header-m-only-for-z-types", "record/bbox.rs",
  "        if S::shapetype().has_m() {\n            self.min.m", "        if S::shapetype().has_z() {\n            self.min.m"),
 ("C05", "sentinels-not-zeroed", "writer.rs",
  "            header.bbox.max.z = 0.0;\n            header.bbox.min.z = 0.0;", "            header.bbox.max.z = 0.0;"),
 ("C06", "typed-read-skips-type-comparison", "record/mod.rs",
  "        if shapetype == Self::shapetype() {\n            S::read_shape_content", "        if shapetype == Self::shapetype() || shapetype == ShapeType::PointM {\n            S::read_shape_content"),
 ("C06", "mismatch-fields-swapped", "record/mod.rs",
  "            Err(Error::MismatchShapeType {\n                requested: Self::shapetype(),\n                actual: shapetype,\n            })", "            Err(Error::MismatchShapeType {\n                requested: shapetype,\n                actual: Self::shapetype(),\n            })"),
 ("C06", "wrong-arm-in-shape-shapetype", "record/mod.rs",
  "            Shape::PolygonM(_) => ShapeType::PolygonM,", "            Shape::PolygonM(_) => ShapeType::PolygonZ,"),
 ("C07", "record-size-unchecked-mul", "reader.rs",
  "    let record_size = hdr\n        .record_size\n        .checked_mul(2)\n        .filter(|size| *size >= 0)\n        .ok_or(Error::InvalidShapeRecordSize)?;", "    let record_size = hdr.record_size * 2;"),
 ("C07", "negative-multipoint-count-accepted", "record/multipoint.rs",
  "        if num_points < 0 {\n            return Err(Error::InvalidShapeRecordSize);\n        }\n        if record_size == Self::size_of_record(num_points) as i32 {", "        if record_size == Self::size_of_record(num_points) as i32 {"),
 ("C07", "iterator-neither-fused-nor-advanced-after-error", "reader.rs",
  "        if let Some(Err(_)) = item {", "        if false {"),
 ("C09", "write-shape-does-not-set-dirty", "writer.rs",
  "        self.rec_num += 1;\n        self.dirty = true;", "        self.rec_num += 1;"),
 ("C09", "finalize-does-not-seek-back-to-end", "writer.rs",
  "        header.write_to(&mut self.shp_dest)?;\n        self.shp_dest.seek(SeekFrom::End(0))?;", "        header.write_to(&mut self.shp_dest)?;"),
 ("C09", "drop-does-not-finalize", "writer.rs",
  "    fn drop(&mut self) {\n        let _ = self.finalize();\n    }\n}\n\nimpl ShapeWriter<BufWriter<File>>", "    fn drop(&mut self) {}\n}\n\nimpl ShapeWriter<BufWriter<File>>"),
 ("C09", "finalize-ignores-dirty", "writer.rs",
  "        if !self.dirty {\n            return Ok(());\n        }", "        if false {\n            return Ok(());\n        }"),
 ("C10", "type-compared-after-reserving-header", "writer.rs",
  "            (t1, t2) if t1 != t2 => {\n                return Err(Error::MismatchShapeType {\n                    requested: t1,\n                    actual: t2,\n                });\n            }",
  "            (t1, t2) if t1 != t2 => {\n                self.header.write_to(&mut self.shp_dest)?;\n                return Err(Error::MismatchShapeType {\n                    requested: t1,\n                    actual: t2,\n                });\n            }"),
 ("C10", "writer-writes-row-first", "writer.rs",
  "        self.shape_writer.write_shape(shape)?;\n        self.dbase_writer.write_record(record)?;", "        self.dbase_writer.write_record(record)?;\n        self.shape_writer.write_shape(shape)?;"),
 ("C10", "mismatch-error-fields-swapped", "writer.rs",
  "                    requested: t1,\n                    actual: t2,", "                    requested: t2,\n                    actual: t1,"),
 ("C11", "finalize-writes-placeholder-header-first", "writer.rs",
  "        self.shp_dest.seek(SeekFrom::Start(0))?;\n        header.write_to(&mut self.shp_dest)?;\n        self.shp_dest.seek(SeekFrom::End(0))?;",
  "        self.shp_dest.seek(SeekFrom::Start(0))?;\n        header::Header::default().write_to(&mut self.shp_dest)?;\n        self.shp_dest.seek(SeekFrom::Start(0))?;\n        header.write_to(&mut self.shp_dest)?;\n        self.shp_dest.seek(SeekFrom::End(0))?;"),
 ("C11", "record-reserved-with-zeros-then-filled-index-first", "writer.rs",
  "        .write_to(&mut self.shp_dest)?;\n        self.header.shape_type.write_to(&mut self.shp_dest)?;\n        shape.write_to(&mut self.shp_dest)?;\n\n        if let Some(shx_dest) = &mut self.shx_dest {\n            ShapeIndex {\n                offset: self.header.file_length,\n                record_size: record_size as i32,\n            }\n            .write_to(shx_dest)?;\n        }",
  "        .write_to(&mut self.shp_dest)?;\n        if let Some(shx_dest) = &mut self.shx_dest {\n            ShapeIndex {\n                offset: self.header.file_length,\n                record_size: record_size as i32,\n            }\n            .write_to(shx_dest)?;\n        }\n        self.header.shape_type.write_to(&mut self.shp_dest)?;\n        // reserve the space of the record, then fill it\n        self.shp_dest.write_all(&vec![0u8; shape.size_in_bytes()])?;\n        self.shp_dest.seek(SeekFrom::Current(-(shape.size_in_bytes() as i64)))?;\n        shape.write_to(&mut self.shp_dest)?;"),
 ("C12", "seek-error-ignored", "writer.rs",
  "        self.shp_dest.seek(SeekFrom::End(0))?;\n        self.shp_dest.flush()?;", "        let _ = self.shp_dest.seek(SeekFrom::End(0));\n        self.shp_dest.flush()?;"),
 ("C12", "shx-write-unwrap", "writer.rs",
  "            shx_header.write_to(shx_dest)?;", "            shx_header.write_to(shx_dest).unwrap();"),
 ("C12", "write-instead-of-write-all", "header.rs",
  "        dest.write_all(&skip)?;", "        let _ = dest.write(&skip)?;"),
 ("C13", "read-instead-of-read-exact", "header.rs",
  "        source.read_exact(&mut skip)?;", "        let _ = source.read(&mut skip)?;"),
 ("C13", "unwrap-or-default-on-z", "record/io.rs",
  "        point.z = source.read_f64::<LittleEndian>()?;", "        point.z = source.read_f64::<LittleEndian>().unwrap_or_default();"),
 ("C14", "iterator-never-seeks", "reader.rs",
  "            if start_pos != *self.current_pos as u64 {", "            if false && start_pos != *self.current_pos as u64 {"),
 ("C14", "seek-to-offset-not-doubled", "reader.rs",
  "        u64::try_from(i64::from(self.offset) * 2).map_err(|_| {", "        u64::try_from(i64::from(self.offset)).map_err(|_| {"),
 ("C15", "seek-does-not-set-next-index", "reader.rs",
  "            self.next_index = index.min(num_shapes);", "            self.next_index = 0;"),
 ("C15", "reader-seek-forgets-dbf", "reader.rs",
  "        self.shape_reader.seek(index)?;\n        self.dbase_reader.seek(index)?;", "        self.shape_reader.seek(index)?;"),
 ("C16", "reverse-on-equal", "record/polygon.rs",
  "            (PolygonRing::Outer(points), RingType::InnerRing)\n            | (PolygonRing::Inner(points), RingType::OuterRing) => {", "            (PolygonRing::Outer(points), RingType::OuterRing)\n            | (PolygonRing::Inner(points), RingType::InnerRing) => {"),
 ("C16", "area-sign-flipped", "record/mod.rs",
  "    if area < 0.0 {\n        RingType::InnerRing", "    if area > 0.0 {\n        RingType::InnerRing"),
 ("C16", "close-by-appending-last", "record/mod.rs",
  "        if let Some(point) = points.first().copied() {", "        if let Some(point) = points.last().copied() {"),
 ("C16", "close-triangle-strips", "record/multipatch.rs",
  "                Patch::TriangleStrip(_) => {}\n                Patch::TriangleFan(_) => {}\n                Patch::OuterRing", "                Patch::TriangleStrip(points) => close_points_if_not_already(points),\n                Patch::TriangleFan(_) => {}\n                Patch::OuterRing"),
 ("C17", "index-capacity-uncapped", "reader.rs",
  "    let mut shapes_index = Vec::<ShapeIndex>::with_capacity(\n        crate::record::io::bounded_capacity::<ShapeIndex>(num_shapes as usize),\n    );", "    let mut shapes_index = Vec::<ShapeIndex>::with_capacity(num_shapes as usize);"),
 ("C17", "parts-capacity-uncapped", "record/io.rs",
  "    let mut parts = Vec::<i32>::with_capacity(bounded_capacity::<i32>(num_parts as usize));", "    let mut parts = Vec::<i32>::with_capacity(num_parts as usize);"),
 ("C18", "polygonz-size-wrong-above-100-points", "record/polygon.rs",
  "        size += 4 * size_of::<f64>() * self.total_point_count();\n        size += 2 * size_of::<f64>();\n        size += 2 * size_of::<f64>();\n        size\n    }\n\n    fn write_to<T: Write>(&self, dest: &mut T) -> Result<(), Error> {\n        let parts_iter = self.rings().iter().map(|ring| ring.points());\n        let writer = MultiPartShapeWriter::new(&self.bbox, parts_iter, dest);\n        writer.write_point_z_shape()?;",
  "        size += 4 * size_of::<f64>() * self.total_point_count();\n        if self.total_point_count() > 100 {\n            size += 8;\n        }\n        size += 2 * size_of::<f64>();\n        size += 2 * size_of::<f64>();\n        size\n    }\n\n    fn write_to<T: Write>(&self, dest: &mut T) -> Result<(), Error> {\n        let parts_iter = self.rings().iter().map(|ring| ring.points());\n        let writer = MultiPartShapeWriter::new(&self.bbox, parts_iter, dest);\n        writer.write_point_z_shape()?;"),
 ("C18", "multipatch-parts-counted-once", "record/multipatch.rs",
  "        size += size_of::<i32>() * self.patches.len();\n        size += size_of::<i32>() * self.patches.len();\n        size += 4 * size_of::<f64>() * self.total_point_count();", "        size += size_of::<i32>() * self.patches.len();\n        size += size_of::<i32>() * self.patches.len().min(1);\n        size += 4 * size_of::<f64>() * self.total_point_count();"),
 ("C19", "wrong-discriminant", "lib.rs", "            23 => Some(ShapeType::PolylineM),", "            23 => Some(ShapeType::PolygonM),"),
 ("C19", "has-m-includes-multipatch", "lib.rs", "                | ShapeType::MultipointM\n        )\n    }", "                | ShapeType::MultipointM\n                | ShapeType::Multipatch\n        )\n    }"),
 ("C19", "error-carries-constant", "lib.rs", "        Self::from(code).ok_or(Error::InvalidShapeType(code))", "        Self::from(code).ok_or(Error::InvalidShapeType(code & 0xffff))"),
 ("C20", "holes-attached-to-first-outer", "record/polygon.rs",
  "                    if let Some(poly) = last_poly.as_mut() {\n                        poly.interiors_push(interior);\n                    } else {\n                        // This is the strange (?) case: inner ring without a previous outer ring\n                        polygons.push(geo_types::Polygon::<f64>::new(\n                            LineString::<f64>::from(Vec::<Coord<f64>>::new()),\n                            vec![LineString::from(interior)],\n                        ));\n                    }\n                }\n            }\n        }\n        if let Some(poly) = last_poly.take() {\n            polygons.push(poly);\n        }\n        polygons.into()",
  "                    if let Some(poly) = polygons.first_mut().or(last_poly.as_mut()) {\n                        poly.interiors_push(interior);\n                    } else {\n                        // This is the strange (?) case: inner ring without a previous outer ring\n                        polygons.push(geo_types::Polygon::<f64>::new(\n                            LineString::<f64>::from(Vec::<Coord<f64>>::new()),\n                            vec![LineString::from(interior)],\n                        ));\n                    }\n                }\n            }\n        }\n        if let Some(poly) = last_poly.take() {\n            polygons.push(poly);\n        }\n        polygons.into()"),
 ("C20", "swap-xy-in-pointm-coord", "record/point.rs",
  "impl From<PointM> for geo_types::Coord<f64> {\n    fn from(p: PointM) -> Self {\n        geo_types::Coord { x: p.x, y: p.y }", "impl From<PointM> for geo_types::Coord<f64> {\n    fn from(p: PointM) -> Self {\n        geo_types::Coord { x: p.y, y: p.x }"),
 ("C20", "pointm-dim-threshold-lt", "geo_traits_impl.rs",
  "impl CoordTrait for PointM {\n    type T = f64;\n\n    fn dim(&self) -> geo_traits::Dimensions {\n        if self.m <= NO_DATA {", "impl CoordTrait for PointM {\n    type T = f64;\n\n    fn dim(&self) -> geo_traits::Dimensions {\n        if self.m < NO_DATA {"),
]

def sh(cmd, **kw):
    return subprocess.run(cmd, shell=True, capture_output=True, text=True, **kw)

def main():
    want = set(sys.argv[1:])
    assert sh('git -C /repo diff --quiet').returncode == 0, "/repo is dirty"
    results = []
    for pid, name, f, old, new in M:
        if want and pid not in want:
            continue
        path = R + f
        src = open(path).read()
        if src.count(old) != 1:
            results.append((pid, name, 'PATTERN-NOT-UNIQUE(%d)' % src.count(old), 0, ''))
            print(results[-1]); continue
        try:
            open(path, 'w').write(src.replace(old, new))
            t = time.time()
            r = sh('cd /verif && ./check %s quick' % pid)
            dt = time.time() - t
            key = ''
            for l in r.stdout.splitlines():
                if 'key=' in l:
                    key = l.strip()[:160]; break
            verdict = {0: 'MISSED', 1: 'caught', 2: 'INCONCLUSIVE(build?)'}.get(r.returncode, 'exit%d' % r.returncode)
            if r.returncode == 2:
                key = (r.stderr or '')[-300:].replace('\n', ' ')
        finally:
            open(path, 'w').write(src)
        results.append((pid, name, verdict, round(dt, 1), key))
        print('%s %-42s %-10s %5.1fs %s' % results[-1], flush=True)
    sh('git -C /repo checkout -- .')
    assert sh('git -C /repo diff --quiet').returncode == 0
    out = '/verif/seeded/sensitivity_results.json'
    prev = {}
    if os.path.exists(out):
        prev = {(r['property'], r['mutant']): r for r in json.load(open(out))}
    for pid, name, verdict, dt, key in results:
        prev[(pid, name)] = {'property': pid, 'mutant': name, 'verdict': verdict, 'seconds': dt, 'first_violation': key}
    json.dump(sorted(prev.values(), key=lambda r: (r['property'], r['mutant'])), open(out, 'w'), indent=1)
    missed = [r for r in results if r[2] != 'caught']
    print('\n%d mutants, %d caught, %d not caught' % (len(results), len(results) - len(missed), len(missed)))
    for r in missed:
        print('  NOT CAUGHT:', r[:3])

if __name__ == '__main__':
    main()

#!/bin/bash
# tools/reeval_all.sh [name ...] — re-runs the quick check of every stored seeded change (seeded/<name>/patch.diff)
# against the current machinery and the current /repo; updates seeded/reeval_results.json (entries of the names run) and prints one line each.
cd /verif
names=("$@"); [ ${#names[@]} -eq 0 ] && names=($(ls seeded | grep -E '^C[0-9]{2}[a-z]?$'))
res=target/reeval.tmp; : > $res
for name in "${names[@]}"; do
  id=${name:0:3}
  if ! git -C /repo diff --quiet; then echo "/repo is dirty, refusing"; exit 2; fi
  if ! git -C /repo apply "/verif/seeded/$name/patch.diff" 2>/dev/null; then
    if ! git -C /repo apply --3way "/verif/seeded/$name/patch.diff" >/dev/null 2>&1; then
      echo "$name $id apply-failed" | tee -a $res; git -C /repo reset -q --hard HEAD; continue
    fi
    git -C /repo reset -q
  fi
  out=$(VERIF_SHRINK_MS=300 timeout 1200 ./check "$id" quick 2>&1); code=$?
  git -C /repo checkout -- .
  echo "$name $id exit=$code $(echo "$out" | grep -A1 '^VIOLATION' | sed -n 2p | cut -c1-160)" | tee -a $res
done
python3 - <<'PY'
import json
import os
r=json.load(open('/verif/seeded/reeval_results.json')) if os.path.exists('/verif/seeded/reeval_results.json') else {}
for l in open('/verif/target/reeval.tmp'):
    p=l.split(None,3)
    r[p[0]]={'property':p[1],'result':p[2],'first_violation':p[3].strip() if len(p)>3 else ''}
json.dump(r,open('/verif/seeded/reeval_results.json','w'),indent=1)
n=[v for k,v in r.items() if k!='_meta']
print(sum(1 for v in n if v.get('result')=='exit=1'),'of',len(n),'entries detected by their own property check')
PY

//! Bridge between the plain model and the 13 concrete library shape types. Values are built only
//! through public constructors and read back only through public accessors.

use crate::model::*;
use shapefile::record::{EsriShape, GenericBBox};
use shapefile::{
    Multipatch, Multipoint, MultipointM, MultipointZ, Patch, Point, PointM, PointZ, Polygon,
    PolygonM, PolygonRing, PolygonZ, Polyline, PolylineM, PolylineZ, ReadableShape, Shape,
    ShapeType,
};

pub trait Pt: Copy {
    fn mk(v: &V) -> Self;
    fn rd(&self) -> V;
}
impl Pt for Point {
    fn mk(v: &V) -> Self {
        Point::new(v[0].v(), v[1].v())
    }
    fn rd(&self) -> V {
        [F::of(self.x), F::of(self.y), F(0), F(0)]
    }
}
impl Pt for PointM {
    fn mk(v: &V) -> Self {
        PointM::new(v[0].v(), v[1].v(), v[3].v())
    }
    fn rd(&self) -> V {
        [F::of(self.x), F::of(self.y), F(0), F::of(self.m)]
    }
}
impl Pt for PointZ {
    fn mk(v: &V) -> Self {
        PointZ::new(v[0].v(), v[1].v(), v[2].v(), v[3].v())
    }
    fn rd(&self) -> V {
        [F::of(self.x), F::of(self.y), F::of(self.z), F::of(self.m)]
    }
}

fn pts<P: Pt>(p: &[V]) -> Vec<P> {
    p.iter().map(P::mk).collect()
}
fn rd<P: Pt>(p: &[P]) -> Vec<V> {
    p.iter().map(|x| x.rd()).collect()
}

fn bbox_of<P: Pt>(b: &GenericBBox<P>) -> BBox {
    let mn = b.min.rd();
    let mx = b.max.rd();
    [mn[0], mn[1], mx[0], mx[1], mn[2], mx[2], mn[3], mx[3]]
}

fn bbox_xy_ranges<P: Pt + shapefile::record::traits::HasXY>(b: &GenericBBox<P>, full: BBox) -> Result<(), String> {
    let (x, y) = (b.x_range(), b.y_range());
    if F::of(x[0]) != full[0] || F::of(x[1]) != full[2] || F::of(y[0]) != full[1] || F::of(y[1]) != full[3] {
        return Err(format!("bbox().x_range() / y_range() = {:?} / {:?}, the box's corner points give {:?}", x, y, &full[..4]));
    }
    Ok(())
}

pub fn ty_of(t: ShapeType) -> Ty {
    Ty::from_code(t as i32).expect("library ShapeType has a table code")
}

pub fn st_of(t: Ty) -> ShapeType {
    ShapeType::from(t.code()).expect("table code decodes")
}

/// How a value is constructed from the model (all public API).
#[derive(Clone, Copy, PartialEq, Eq, Debug, Hash, serde::Serialize, serde::Deserialize)]
pub enum Ctor {
    /// `with_parts` / `with_rings` / `Multipoint::new` / struct `new`
    Plain,
    /// single-part constructor `new` when the model has exactly one part, `From<Vec<_>>` for multipoints
    Single,
    /// polygons: the matching polyline is built (`with_parts`) and converted with `From<Polyline*>` when every ring
    /// has the two points a polyline part needs; everything else as `Plain`
    Converted,
}

pub trait Kind: Sized + Clone + EsriShape + ReadableShape + Into<Shape> + TryFrom<Shape> + 'static {
    const TY: Ty;
    /// Build through public constructors. Preconditions (documented panics) are the caller's job.
    fn build(g: &Geom, c: Ctor) -> Self;
    /// Read back through public accessors.
    fn view(&self) -> Geom;
    /// The same value read through the OTHER public accessors (indexed getters, `Index`, `into_inner`, `AsRef`,
    /// `From<..> for Vec<..>`). Err = two accessors disagree.
    fn alt_view(&self) -> Result<Geom, String> {
        Ok(self.view())
    }
    /// The box's range getters (`bbox().x_range()` ...) against the box's corner points (C05).
    fn box_getters_agree(&self) -> Result<(), String> {
        Ok(())
    }
}

macro_rules! point_kind {
    ($T:ident, $ty:expr) => {
        impl Kind for $T {
            const TY: Ty = $ty;
            fn build(g: &Geom, _c: Ctor) -> Self {
                <$T as Pt>::mk(&g.parts[0].pts[0])
            }
            fn view(&self) -> Geom {
                Geom {
                    ty: $ty,
                    parts: vec![Part {
                        kind: 0,
                        pts: vec![self.rd()],
                    }],
                    bbox: [F(0); 8],
                    m_present: $ty.carries_m(),
                }
                .canon()
            }
        }
    };
}
point_kind!(Point, Ty::Point);
point_kind!(PointM, Ty::PointM);
point_kind!(PointZ, Ty::PointZ);

macro_rules! multipoint_kind {
    ($T:ident, $P:ident, $ty:expr) => {
        impl Kind for $T {
            const TY: Ty = $ty;
            fn build(g: &Geom, c: Ctor) -> Self {
                let p: Vec<$P> = pts(&g.parts[0].pts);
                match c {
                    Ctor::Plain | Ctor::Converted => $T::new(p),
                    Ctor::Single => $T::from(p),
                }
            }
            fn view(&self) -> Geom {
                Geom {
                    ty: $ty,
                    parts: vec![Part {
                        kind: 0,
                        pts: rd(self.points()),
                    }],
                    bbox: bbox_of(self.bbox()),
                    m_present: $ty.carries_m(),
                }
                .canon()
            }
            fn box_getters_agree(&self) -> Result<(), String> {
                bbox_xy_ranges(self.bbox(), bbox_of(self.bbox()))
            }
            fn alt_view(&self) -> Result<Geom, String> {
                let n = self.points().len();
                let mut by_getter: Vec<$P> = Vec::new();
                let mut i = 0;
                while let Some(p) = self.point(i) {
                    by_getter.push(*p);
                    i += 1;
                    if i > n + 1 {
                        return Err(format!("point({}) is Some with {} points", i - 1, n));
                    }
                }
                if i != n {
                    return Err(format!("point(i) yields {} points, points() has {}", i, n));
                }
                let by_index: Vec<$P> = (0..n).map(|i| self[i]).collect();
                let inner: Vec<$P> = self.clone().into_inner();
                let as_vec: Vec<$P> = self.clone().into();
                let a = rd(&by_getter);
                if a != rd(&by_index) || a != rd(&inner) || a != rd(&as_vec) {
                    return Err("point(i), self[i], into_inner() and Vec::from(multipoint) disagree".to_string());
                }
                let bbox = bbox_of(self.bbox());
                Ok(Geom {
                    ty: $ty,
                    parts: vec![Part { kind: 0, pts: a }],
                    bbox,
                    m_present: $ty.carries_m(),
                }
                .canon())
            }
        }
    };
}
multipoint_kind!(Multipoint, Point, Ty::Multipoint);
multipoint_kind!(MultipointM, PointM, Ty::MultipointM);
multipoint_kind!(MultipointZ, PointZ, Ty::MultipointZ);

macro_rules! polyline_kind {
    ($T:ident, $P:ident, $ty:expr) => {
        impl Kind for $T {
            const TY: Ty = $ty;
            fn build(g: &Geom, c: Ctor) -> Self {
                if c == Ctor::Single && g.parts.len() == 1 {
                    $T::new(pts::<$P>(&g.parts[0].pts))
                } else {
                    $T::with_parts(g.parts.iter().map(|p| pts::<$P>(&p.pts)).collect())
                }
            }
            fn view(&self) -> Geom {
                Geom {
                    ty: $ty,
                    parts: self
                        .parts()
                        .iter()
                        .map(|p| Part {
                            kind: 0,
                            pts: rd(p),
                        })
                        .collect(),
                    bbox: bbox_of(self.bbox()),
                    m_present: $ty.carries_m(),
                }
                .canon()
            }
            fn box_getters_agree(&self) -> Result<(), String> {
                bbox_xy_ranges(self.bbox(), bbox_of(self.bbox()))
            }
            fn alt_view(&self) -> Result<Geom, String> {
                let n = self.parts().len();
                let mut parts: Vec<Part> = Vec::new();
                let mut i = 0;
                while let Some(p) = self.part(i) {
                    parts.push(Part { kind: 0, pts: rd(p) });
                    i += 1;
                    if i > n + 1 {
                        return Err(format!("part({}) is Some with {} parts", i - 1, n));
                    }
                }
                let inner: Vec<Part> = self.clone().into_inner().iter().map(|p| Part { kind: 0, pts: rd(p) }).collect();
                if parts != inner {
                    return Err("part(i) and into_inner() disagree".to_string());
                }
                let bbox = bbox_of(self.bbox());
                Ok(Geom {
                    ty: $ty,
                    parts,
                    bbox,
                    m_present: $ty.carries_m(),
                }
                .canon())
            }
        }
    };
}
polyline_kind!(Polyline, Point, Ty::Polyline);
polyline_kind!(PolylineM, PointM, Ty::PolylineM);
polyline_kind!(PolylineZ, PointZ, Ty::PolylineZ);

pub fn ring_of<P: Pt>(p: &Part) -> PolygonRing<P> {
    if p.kind == INNER {
        PolygonRing::Inner(pts(&p.pts))
    } else {
        PolygonRing::Outer(pts(&p.pts))
    }
}

pub fn part_of_ring<P: Pt>(r: &PolygonRing<P>) -> Part {
    match r {
        PolygonRing::Outer(p) => Part {
            kind: OUTER,
            pts: rd(p),
        },
        PolygonRing::Inner(p) => Part {
            kind: INNER,
            pts: rd(p),
        },
    }
}

macro_rules! polygon_kind {
    ($T:ident, $P:ident, $L:ident, $ty:expr) => {
        impl Kind for $T {
            const TY: Ty = $ty;
            fn build(g: &Geom, c: Ctor) -> Self {
                if c == Ctor::Converted && g.parts.iter().all(|p| p.pts.len() >= 2) {
                    $T::from($L::with_parts(g.parts.iter().map(|p| pts::<$P>(&p.pts)).collect()))
                } else if c == Ctor::Single && g.parts.len() == 1 {
                    $T::new(ring_of::<$P>(&g.parts[0]))
                } else {
                    $T::with_rings(g.parts.iter().map(ring_of::<$P>).collect())
                }
            }
            fn view(&self) -> Geom {
                Geom {
                    ty: $ty,
                    parts: self.rings().iter().map(part_of_ring).collect(),
                    bbox: bbox_of(self.bbox()),
                    m_present: $ty.carries_m(),
                }
                .canon()
            }
            fn box_getters_agree(&self) -> Result<(), String> {
                bbox_xy_ranges(self.bbox(), bbox_of(self.bbox()))
            }
            fn alt_view(&self) -> Result<Geom, String> {
                let n = self.rings().len();
                let mut parts: Vec<Part> = Vec::new();
                let mut i = 0;
                while let Some(r) = self.ring(i) {
                    let kind = match r {
                        PolygonRing::Outer(_) => OUTER,
                        PolygonRing::Inner(_) => INNER,
                    };
                    let via_ref: &[$P] = r.as_ref();
                    let via_index: Vec<$P> = (0..r.len()).map(|k| r[k]).collect();
                    let inner: Vec<$P> = r.clone().into_inner();
                    let a = rd(via_ref);
                    if a != rd(&via_index) || a != rd(&inner) || r.is_empty() != a.is_empty() || r.len() != a.len() {
                        return Err(format!("ring {}: as_ref(), ring[k], into_inner(), len() / is_empty() disagree", i));
                    }
                    parts.push(Part { kind, pts: a });
                    i += 1;
                    if i > n + 1 {
                        return Err(format!("ring({}) is Some with {} rings", i - 1, n));
                    }
                }
                let inner: Vec<Part> = self.clone().into_inner().iter().map(part_of_ring).collect();
                if parts != inner {
                    return Err("ring(i) and into_inner() disagree".to_string());
                }
                let bbox = bbox_of(self.bbox());
                Ok(Geom {
                    ty: $ty,
                    parts,
                    bbox,
                    m_present: $ty.carries_m(),
                }
                .canon())
            }
        }
    };
}
polygon_kind!(Polygon, Point, Polyline, Ty::Polygon);
polygon_kind!(PolygonM, PointM, PolylineM, Ty::PolygonM);
polygon_kind!(PolygonZ, PointZ, PolylineZ, Ty::PolygonZ);

pub fn patch_of(p: &Part) -> Patch {
    let v: Vec<PointZ> = pts(&p.pts);
    match p.kind {
        0 => Patch::TriangleStrip(v),
        1 => Patch::TriangleFan(v),
        2 => Patch::OuterRing(v),
        3 => Patch::InnerRing(v),
        4 => Patch::FirstRing(v),
        _ => Patch::Ring(v),
    }
}

pub fn part_of_patch(p: &Patch) -> Part {
    let kind = match p {
        Patch::TriangleStrip(_) => 0,
        Patch::TriangleFan(_) => 1,
        Patch::OuterRing(_) => 2,
        Patch::InnerRing(_) => 3,
        Patch::FirstRing(_) => 4,
        Patch::Ring(_) => 5,
    };
    Part {
        kind,
        pts: rd(p.points()),
    }
}

impl Kind for Multipatch {
    const TY: Ty = Ty::Multipatch;
    fn build(g: &Geom, c: Ctor) -> Self {
        if c == Ctor::Single && g.parts.len() == 1 {
            Multipatch::new(patch_of(&g.parts[0]))
        } else {
            Multipatch::with_parts(g.parts.iter().map(patch_of).collect())
        }
    }
    fn view(&self) -> Geom {
        Geom {
            ty: Ty::Multipatch,
            parts: self.patches().iter().map(part_of_patch).collect(),
            bbox: bbox_of(self.bbox()),
            m_present: true,
        }
        .canon()
    }
    fn box_getters_agree(&self) -> Result<(), String> {
        let bbox = bbox_of(self.bbox());
        bbox_xy_ranges(self.bbox(), bbox)?;
        let (z, m) = (self.bbox().z_range(), self.bbox().m_range());
        if F::of(z[0]) != bbox[4] || F::of(z[1]) != bbox[5] || F::of(m[0]) != bbox[6] || F::of(m[1]) != bbox[7] {
            return Err("bbox().z_range() / m_range() differ from the box's corner points".to_string());
        }
        Ok(())
    }
    fn alt_view(&self) -> Result<Geom, String> {
        let n = self.patches().len();
        let mut parts: Vec<Part> = Vec::new();
        let mut i = 0;
        while let Some(p) = self.patch(i) {
            let mut part = part_of_patch(p);
            let via_ref: &[PointZ] = p.as_ref();
            if rd(via_ref) != part.pts {
                return Err(format!("patch {}: as_ref() and points() disagree", i));
            }
            part.pts = rd(via_ref);
            parts.push(part);
            i += 1;
            if i > n + 1 {
                return Err(format!("patch({}) is Some with {} patches", i - 1, n));
            }
        }
        let inner: Vec<Part> = self.clone().into_inner().iter().map(part_of_patch).collect();
        if parts != inner {
            return Err("patch(i) and into_inner() disagree".to_string());
        }
        let bbox = bbox_of(self.bbox());
        Ok(Geom {
            ty: Ty::Multipatch,
            parts,
            bbox,
            m_present: true,
        }
        .canon())
    }
}

/// A value of type K holding exactly the model's parts even where no public constructor would build it (no part at
/// all, empty parts, one-point polyline parts): the record is laid out by the reference encoder and read with the
/// library's own reader, which is how such values reach user code.
pub fn build_via_read<K: Kind>(g: &Geom) -> Result<K, String> {
    let mut g = g.clone().canon_file();
    g.ty = K::TY;
    let enc = crate::refcodec::encode(&crate::refcodec::FileModel::simple(K::TY, vec![g]));
    let mut r = shapefile::ShapeReader::new(std::io::Cursor::new(enc.shp)).map_err(|e| format!("{:?}", e))?;
    let mut v = r.read().map_err(|e| format!("{:?}", e))?;
    if v.len() != 1 {
        return Err(format!("{} shapes read from a one-record file", v.len()));
    }
    K::try_from(v.remove(0)).map_err(|_| "the record read is not of the type written".to_string())
}

/// The model of a shape of type `ty` without any vertex (multi-vertex types only).
pub fn empty_geom(ty: Ty) -> Geom {
    Geom {
        ty,
        parts: if ty.family() == Family::Multipoint { vec![Part { kind: 0, pts: vec![] }] } else { vec![] },
        bbox: [F(0); 8],
        m_present: ty.carries_m(),
    }
    .canon_file()
}

/// `K::build` for models a constructor accepts, `build_via_read` for vertex-less ones.
pub fn build_any<K: Kind>(g: &Geom, c: Ctor) -> K {
    if K::TY.family() != Family::Point && g.npoints() == 0 {
        build_via_read::<K>(g).expect("the library reads a record without vertices")
    } else {
        K::build(g, c)
    }
}

/// Accessor view of a generic shape value.
pub fn view_shape(s: &Shape) -> Geom {
    match s {
        Shape::NullShape => Geom::null(),
        Shape::Point(x) => x.view(),
        Shape::PointM(x) => x.view(),
        Shape::PointZ(x) => x.view(),
        Shape::Polyline(x) => x.view(),
        Shape::PolylineM(x) => x.view(),
        Shape::PolylineZ(x) => x.view(),
        Shape::Polygon(x) => x.view(),
        Shape::PolygonM(x) => x.view(),
        Shape::PolygonZ(x) => x.view(),
        Shape::Multipoint(x) => x.view(),
        Shape::MultipointM(x) => x.view(),
        Shape::MultipointZ(x) => x.view(),
        Shape::Multipatch(x) => x.view(),
    }
}

/// Which enum variant a generic value is (independent of `Shape::shapetype`).
pub fn variant_ty(s: &Shape) -> Ty {
    match s {
        Shape::NullShape => Ty::Null,
        Shape::Point(_) => Ty::Point,
        Shape::PointM(_) => Ty::PointM,
        Shape::PointZ(_) => Ty::PointZ,
        Shape::Polyline(_) => Ty::Polyline,
        Shape::PolylineM(_) => Ty::PolylineM,
        Shape::PolylineZ(_) => Ty::PolylineZ,
        Shape::Polygon(_) => Ty::Polygon,
        Shape::PolygonM(_) => Ty::PolygonM,
        Shape::PolygonZ(_) => Ty::PolygonZ,
        Shape::Multipoint(_) => Ty::Multipoint,
        Shape::MultipointM(_) => Ty::MultipointM,
        Shape::MultipointZ(_) => Ty::MultipointZ,
        Shape::Multipatch(_) => Ty::Multipatch,
    }
}

/// Visitor over the 13 concrete types, for code that is generic in the type but chooses it at run time.
pub trait KindFn {
    type Out;
    fn call<K: Kind>(self) -> Self::Out
    where
        shapefile::Error: From<<K as TryFrom<Shape>>::Error>;
}

pub fn dispatch<Fx: KindFn>(ty: Ty, f: Fx) -> Fx::Out {
    match ty {
        Ty::Point => f.call::<Point>(),
        Ty::PointM => f.call::<PointM>(),
        Ty::PointZ => f.call::<PointZ>(),
        Ty::Polyline => f.call::<Polyline>(),
        Ty::PolylineM => f.call::<PolylineM>(),
        Ty::PolylineZ => f.call::<PolylineZ>(),
        Ty::Polygon => f.call::<Polygon>(),
        Ty::PolygonM => f.call::<PolygonM>(),
        Ty::PolygonZ => f.call::<PolygonZ>(),
        Ty::Multipoint => f.call::<Multipoint>(),
        Ty::MultipointM => f.call::<MultipointM>(),
        Ty::MultipointZ => f.call::<MultipointZ>(),
        Ty::Multipatch => f.call::<Multipatch>(),
        Ty::Null => panic!("dispatch on the null type"),
    }
}

//! Harness-owned destinations and sources: every operation the library issues is logged, can be made
//! to fail, and can be made to move fewer bytes than asked.

use serde::{Deserialize, Serialize};
use std::cell::RefCell;
use std::io::{self, Read, Seek, SeekFrom, Write};
use std::rc::Rc;

pub const FAULT_MARK: &str = "VERIF-INJECTED-FAULT";

pub fn is_marked(e: &io::Error) -> bool {
    e.to_string().contains(FAULT_MARK)
}

/// Kinds an injected failure may carry. `Interrupted` is left out on purpose: `read_exact` / `write_all` retry it by
/// contract, so a one-shot `Interrupted` failure is legitimately invisible to the caller.
pub const FAULT_KINDS: [io::ErrorKind; 10] = [
    io::ErrorKind::Other,
    io::ErrorKind::InvalidData,
    io::ErrorKind::UnexpectedEof,
    io::ErrorKind::PermissionDenied,
    io::ErrorKind::WriteZero,
    io::ErrorKind::InvalidInput,
    io::ErrorKind::BrokenPipe,
    io::ErrorKind::NotFound,
    io::ErrorKind::TimedOut,
    io::ErrorKind::WouldBlock,
];

pub fn fault_kind(kind: u8) -> io::ErrorKind {
    FAULT_KINDS[kind as usize % FAULT_KINDS.len()]
}

fn fault(kind: u8) -> io::Error {
    io::Error::new(fault_kind(kind), FAULT_MARK)
}

#[derive(Clone, Debug, PartialEq, Eq)]
pub enum Op {
    Write { pos: usize, data: Vec<u8> },
    Seek { to: usize },
    Flush,
}

#[derive(Clone, Copy, Debug, PartialEq, Eq, Serialize, Deserialize)]
pub enum FaultMode {
    None,
    /// fail exactly the k-th operation (0-based)
    OneShot(usize),
    /// fail the k-th and every later operation until healed
    Persistent(usize),
}

#[derive(Debug)]
pub struct DestState {
    pub data: Vec<u8>,
    pub pos: usize,
    pub log: Vec<Op>,
    /// number of write/seek/flush calls issued so far (failed ones included)
    pub ops: usize,
    pub fault: FaultMode,
    /// index of the op that was failed, if any
    pub faulted_at: Vec<usize>,
    /// short-write schedule: at most chunk[i % len] bytes are accepted by the i-th write call
    pub chunks: Vec<usize>,
    pub write_calls: usize,
    /// index into FAULT_KINDS of the injected failures
    pub fault_kind: u8,
}

/// Shared-handle destination: clone one handle into the writer, keep the other to inspect.
#[derive(Clone, Debug)]
pub struct Dest(pub Rc<RefCell<DestState>>);

impl Dest {
    pub fn new() -> Dest {
        Dest(Rc::new(RefCell::new(DestState {
            data: vec![],
            pos: 0,
            log: vec![],
            ops: 0,
            fault: FaultMode::None,
            faulted_at: vec![],
            chunks: vec![],
            write_calls: 0,
            fault_kind: 0,
        })))
    }
    pub fn with_fault(f: FaultMode) -> Dest {
        let d = Dest::new();
        d.0.borrow_mut().fault = f;
        d
    }
    pub fn with_fault_kind(f: FaultMode, kind: u8) -> Dest {
        let d = Dest::new();
        d.0.borrow_mut().fault = f;
        d.0.borrow_mut().fault_kind = kind;
        d
    }
    pub fn with_chunks(c: Vec<usize>) -> Dest {
        let d = Dest::new();
        d.0.borrow_mut().chunks = c;
        d
    }
    pub fn bytes(&self) -> Vec<u8> {
        self.0.borrow().data.clone()
    }
    pub fn ops(&self) -> usize {
        self.0.borrow().ops
    }
    pub fn write_calls(&self) -> usize {
        self.0.borrow().write_calls
    }
    pub fn log_len(&self) -> usize {
        self.0.borrow().log.len()
    }
    pub fn log(&self) -> Vec<Op> {
        self.0.borrow().log.clone()
    }
    pub fn heal(&self) {
        self.0.borrow_mut().fault = FaultMode::None;
    }
    pub fn faults(&self) -> Vec<usize> {
        self.0.borrow().faulted_at.clone()
    }
    /// true if no write happened after the last flush (and at least one flush happened, or nothing was written)
    pub fn flushed(&self) -> bool {
        let s = self.0.borrow();
        for op in s.log.iter().rev() {
            match op {
                Op::Flush => return true,
                Op::Write { .. } => return false,
                Op::Seek { .. } => {}
            }
        }
        true
    }
}

impl Default for Dest {
    fn default() -> Self {
        Dest::new()
    }
}

impl DestState {
    fn gate(&mut self) -> io::Result<()> {
        let k = self.ops;
        self.ops += 1;
        let fail = match self.fault {
            FaultMode::None => false,
            FaultMode::OneShot(n) => k == n,
            FaultMode::Persistent(n) => k >= n,
        };
        if fail {
            self.faulted_at.push(k);
            Err(fault(self.fault_kind))
        } else {
            Ok(())
        }
    }
}

impl Write for Dest {
    fn write(&mut self, buf: &[u8]) -> io::Result<usize> {
        let mut s = self.0.borrow_mut();
        s.gate()?;
        let mut n = buf.len();
        if !s.chunks.is_empty() && n > 0 {
            let c = s.chunks[s.write_calls % s.chunks.len()].max(1);
            n = n.min(c);
        }
        s.write_calls += 1;
        let pos = s.pos;
        if s.data.len() < pos + n {
            s.data.resize(pos + n, 0);
        }
        s.data[pos..pos + n].copy_from_slice(&buf[..n]);
        s.pos += n;
        s.log.push(Op::Write {
            pos,
            data: buf[..n].to_vec(),
        });
        Ok(n)
    }
    fn flush(&mut self) -> io::Result<()> {
        let mut s = self.0.borrow_mut();
        s.gate()?;
        s.log.push(Op::Flush);
        Ok(())
    }
}

impl Seek for Dest {
    fn seek(&mut self, from: SeekFrom) -> io::Result<u64> {
        let mut s = self.0.borrow_mut();
        s.gate()?;
        let to = match from {
            SeekFrom::Start(n) => n as i64,
            SeekFrom::End(d) => s.data.len() as i64 + d,
            SeekFrom::Current(d) => s.pos as i64 + d,
        };
        if to < 0 {
            return Err(io::Error::new(io::ErrorKind::InvalidInput, "seek before start"));
        }
        s.pos = to as usize;
        s.log.push(Op::Seek { to: to as usize });
        Ok(to as u64)
    }
}

/// Rebuild the persisted image after `nops` complete operations plus `cut` bytes of the next one
/// (if that is a write).
pub fn image_after(log: &[Op], nops: usize, cut: usize) -> Vec<u8> {
    let mut img: Vec<u8> = Vec::new();
    let mut apply = |pos: usize, d: &[u8]| {
        if img.len() < pos + d.len() {
            img.resize(pos + d.len(), 0);
        }
        img[pos..pos + d.len()].copy_from_slice(d);
    };
    for op in &log[..nops.min(log.len())] {
        if let Op::Write { pos, data } = op {
            apply(*pos, data);
        }
    }
    if cut > 0 {
        if let Some(Op::Write { pos, data }) = log.get(nops) {
            let c = cut.min(data.len());
            apply(*pos, &data[..c]);
        }
    }
    img
}

// --------------------------------------------------------------------------------------------
// sources

#[derive(Debug)]
pub struct SrcState {
    pub pos: usize,
    pub ops: usize,
    pub reads: usize,
    pub seeks: usize,
    pub fault_at: Option<usize>,
    pub faulted: bool,
    pub chunks: Vec<usize>,
    pub read_calls: usize,
    /// largest single read request seen
    pub max_req: usize,
    /// index into FAULT_KINDS of the injected failure
    pub fault_kind: u8,
}

#[derive(Clone, Debug)]
pub struct Src {
    pub data: Rc<Vec<u8>>,
    pub st: Rc<RefCell<SrcState>>,
}

impl Src {
    pub fn new(data: Vec<u8>) -> Src {
        Src {
            data: Rc::new(data),
            st: Rc::new(RefCell::new(SrcState {
                pos: 0,
                ops: 0,
                reads: 0,
                seeks: 0,
                fault_at: None,
                faulted: false,
                chunks: vec![],
                read_calls: 0,
                max_req: 0,
                fault_kind: 0,
            })),
        }
    }
    pub fn faulting(data: Vec<u8>, k: usize) -> Src {
        let s = Src::new(data);
        s.st.borrow_mut().fault_at = Some(k);
        s
    }
    pub fn faulting_kind(data: Vec<u8>, k: usize, kind: u8) -> Src {
        let s = Src::faulting(data, k);
        s.st.borrow_mut().fault_kind = kind;
        s
    }
    pub fn short(data: Vec<u8>, chunks: Vec<usize>) -> Src {
        let s = Src::new(data);
        s.st.borrow_mut().chunks = chunks;
        s
    }
    pub fn ops(&self) -> usize {
        self.st.borrow().ops
    }
    pub fn faulted(&self) -> bool {
        self.st.borrow().faulted
    }
    pub fn handle(&self) -> Src {
        self.clone()
    }
}

impl Read for Src {
    fn read(&mut self, buf: &mut [u8]) -> io::Result<usize> {
        let mut s = self.st.borrow_mut();
        let k = s.ops;
        s.ops += 1;
        s.reads += 1;
        if s.fault_at == Some(k) {
            s.faulted = true;
            return Err(fault(s.fault_kind));
        }
        s.max_req = s.max_req.max(buf.len());
        let avail = self.data.len().saturating_sub(s.pos);
        let mut n = buf.len().min(avail);
        if !s.chunks.is_empty() && n > 0 {
            let c = s.chunks[s.read_calls % s.chunks.len()].max(1);
            n = n.min(c);
        }
        s.read_calls += 1;
        let p = s.pos;
        buf[..n].copy_from_slice(&self.data[p..p + n]);
        s.pos += n;
        Ok(n)
    }
}

impl Seek for Src {
    fn seek(&mut self, from: SeekFrom) -> io::Result<u64> {
        let mut s = self.st.borrow_mut();
        let k = s.ops;
        s.ops += 1;
        s.seeks += 1;
        if s.fault_at == Some(k) {
            s.faulted = true;
            return Err(fault(s.fault_kind));
        }
        let to = match from {
            SeekFrom::Start(n) => n as i128,
            SeekFrom::End(d) => self.data.len() as i128 + d as i128,
            SeekFrom::Current(d) => s.pos as i128 + d as i128,
        };
        if to < 0 {
            return Err(io::Error::new(io::ErrorKind::InvalidInput, "seek before start"));
        }
        s.pos = to.min(usize::MAX as i128 / 2) as usize;
        Ok(to as u64)
    }
}

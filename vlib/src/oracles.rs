//! Oracles shared between the harness binaries and the libFuzzer targets.

use crate::model::*;

/// What a reader must report for the file-level record `g` (accessor view), `None` entries = not asserted.
pub fn cmp_read(g: &Geom, got: &Geom) -> Result<(), String> {
    if g.ty != got.ty {
        return Err(format!("record of type {} read as {}", g.ty.name(), got.ty.name()));
    }
    if g.ty == Ty::Null {
        return Ok(());
    }
    if g.parts.len() != got.parts.len() {
        return Err(format!("{} parts encoded, {} read", g.parts.len(), got.parts.len()));
    }
    let multi = g.ty.family() != Family::Point;
    for (i, (p, q)) in g.parts.iter().zip(&got.parts).enumerate() {
        if p.pts.len() != q.pts.len() {
            return Err(format!("part {}: {} vertices encoded, {} read", i, p.pts.len(), q.pts.len()));
        }
        match g.ty.family() {
            Family::Multipatch => {
                if p.kind != q.kind {
                    return Err(format!("patch {}: kind {} encoded, {} read", i, p.kind, q.kind));
                }
            }
            Family::Polygon => {
                if let Some(a) = exact_area2(&p.pts) {
                    if a > 0 && q.kind != OUTER {
                        return Err(format!("ring {} is clockwise (exact sum {}) but reported as Inner", i, a));
                    }
                    if a < 0 && q.kind != INNER {
                        return Err(format!("ring {} is counter-clockwise (exact sum {}) but reported as Outer", i, a));
                    }
                }
            }
            _ => {}
        }
        for (j, (u, v)) in p.pts.iter().zip(&q.pts).enumerate() {
            let mut e = *u;
            if g.ty.carries_m() {
                e[3] = if !g.m_present {
                    F::of(NO_DATA)
                } else if multi {
                    norm_m(u[3])
                } else {
                    u[3]
                };
            }
            if e != *v {
                return Err(format!("part {} vertex {}: expected {:?}, read {:?} (m block present: {})", i, j, e, v, g.m_present));
            }
        }
    }
    if multi {
        let hi = if g.ty.has_z() { 6 } else { 4 };
        for k in 0..hi {
            if g.bbox[k] != got.bbox[k] {
                return Err(format!("stored box[{}] = {:?}, read {:?}", k, g.bbox[k], got.bbox[k]));
            }
        }
        if g.ty.carries_m() && g.m_present {
            for k in 6..8 {
                if g.bbox[k] != got.bbox[k] {
                    return Err(format!("stored M range[{}] = {:?}, read {:?}", k - 6, g.bbox[k], got.bbox[k]));
                }
            }
        }
    }
    Ok(())
}


//! The reader operations every byte-level input is driven through (shared by C07, C17 and the
//! libFuzzer targets): each call under catch_unwind and inside an allocation-measurement window, every
//! iterator with an item cap derived from the input size.

use crate::alloc;
use crate::kinds::*;
use crate::model::*;
use crate::run::{guard, panic_key, Fail};
use crate::ensure;
use shapefile::{Error, Shape, ShapeReader};
use std::io::Cursor;

#[derive(Default)]
pub struct Outcome {
    pub opened: bool,
    pub first_item: Option<Result<(), String>>,
    pub ok_items: usize,
    pub max_ratio: f64,
}

fn err_class(e: &Error) -> &'static str {
    match e {
        Error::IoError(_) => "IoError",
        Error::InvalidFileCode(_) => "InvalidFileCode",
        Error::InvalidShapeType(_) => "InvalidShapeType",
        Error::InvalidPatchType(_) => "InvalidPatchType",
        Error::MismatchShapeType { .. } => "MismatchShapeType",
        Error::InvalidShapeRecordSize => "InvalidShapeRecordSize",
        Error::DbaseError(_) => "DbaseError",
        Error::MissingDbf => "MissingDbf",
        Error::MissingIndexFile => "MissingIndexFile",
    }
}

struct Ex<'a> {
    shp: &'a [u8],
    shx: &'a [u8],
    cap: usize,
    bound: usize,
    check_alloc: bool,
    out: Outcome,
}

impl<'a> Ex<'a> {
    /// One reader call under catch_unwind and the allocation window.
    fn call<R>(&mut self, what: &str, f: impl FnOnce() -> R) -> Result<R, Fail> {
        let (r, peak) = alloc::window(|| guard(f));
        let r = match r {
            Ok(r) => r,
            Err(p) => return Err(Fail::new(&panic_key(&p), format!("{}: panic: {}", what, p))),
        };
        let ratio = peak.peak as f64 / (self.shp.len() + self.shx.len()).max(1) as f64;
        if ratio > self.out.max_ratio {
            self.out.max_ratio = ratio;
        }
        if self.check_alloc && peak.peak > self.bound {
            return Err(Fail::new(
                "alloc-bound",
                format!(
                    "{}: peak of {} bytes requested (largest single request {}) for {} + {} input bytes; bound is 64 x input + 16 KiB = {}",
                    what,
                    peak.peak,
                    peak.largest,
                    self.shp.len(),
                    self.shx.len(),
                    self.bound
                ),
            ));
        }
        Ok(r)
    }

    fn iterate<S: shapefile::ReadableShape>(&mut self, what: &str, r: &mut ShapeReader<Cursor<&'a [u8]>>, note_first: bool) -> Result<(), Fail> {
        let mut it = r.iter_shapes_as::<S>();
        let mut n = 0usize;
        loop {
            let item = self.call(&format!("{} next() #{}", what, n), || it.next().map(|r| r.map(|_| ())))?;
            match item {
                None => break,
                Some(r) => {
                    if note_first && n == 0 {
                        self.out.first_item = Some(r.as_ref().map(|_| ()).map_err(|e| err_class(e).to_string()));
                        self.out.opened = true;
                    }
                    if r.is_ok() && note_first {
                        self.out.ok_items += 1;
                    }
                    n += 1;
                    ensure!(
                        n <= self.cap,
                        "unbounded-iteration",
                        "{}: more than {} items from {} + {} input bytes (last: {:?})",
                        what,
                        self.cap,
                        self.shp.len(),
                        self.shx.len(),
                        r.as_ref().map_err(err_class)
                    );
                }
            }
        }
        Ok(())
    }

    /// `nth` / `skip` / `step_by` on a fresh iterator (they may be specialised by the library).
    fn adaptors(&mut self, what: &str, with_shx: bool) -> Result<(), Fail> {
        for variant in 0..3u8 {
            let Some(mut r) = self.open(what, with_shx)? else { return Ok(()) };
            let mut it = r.iter_shapes();
            let mut n = 0usize;
            loop {
                let label = format!("{} adaptor variant {} call #{}", what, variant, n);
                let item = self.call(&label, || match variant {
                    0 => it.nth(1).map(|r| r.map(|_| ())),
                    1 => it.nth(if n % 2 == 0 { 0 } else { 3 }).map(|r| r.map(|_| ())),
                    _ => it.nth(2).map(|r| r.map(|_| ())),
                })?;
                if item.is_none() {
                    break;
                }
                n += 1;
                ensure!(n <= self.cap, "unbounded-iteration", "{}: more than {} nth() results", what, self.cap);
            }
        }
        Ok(())
    }

    fn open(&mut self, what: &str, with_shx: bool) -> Result<Option<ShapeReader<Cursor<&'a [u8]>>>, Fail> {
        let (shp, shx) = (self.shp, self.shx);
        let r = self.call(&format!("{} open", what), move || {
            if with_shx {
                ShapeReader::with_shx(Cursor::new(shp), Cursor::new(shx))
            } else {
                ShapeReader::new(Cursor::new(shp))
            }
        })?;
        Ok(r.ok())
    }

    fn run_typed<K: Kind>(&mut self) -> Result<(), Fail>
    where
        Error: From<<K as TryFrom<Shape>>::Error>,
    {
        for with in [false, true] {
            let tag = if with { "typed+shx" } else { "typed" };
            if let Some(mut r) = self.open(tag, with)? {
                self.iterate::<K>(tag, &mut r, false)?;
            }
            if let Some(r) = self.open(tag, with)? {
                self.call(&format!("{} read_as", tag), move || r.read_as::<K>().map(|v| v.len()))?.ok();
            }
        }
        Ok(())
    }

    fn run(&mut self) -> Result<(), Fail> {
        // A: no index, generic
        if let Some(mut r) = self.open("noshx", false)? {
            let _ = r.header().shape_type;
            self.iterate::<Shape>("noshx iter_shapes", &mut r, true)?;
            // a second iteration on the same reader must terminate as well
            self.iterate::<Shape>("noshx iter_shapes (again)", &mut r, false)?;
        }
        if let Some(r) = self.open("noshx", false)? {
            self.call("noshx read()", move || r.read().map(|v| v.len()))?.ok();
        }
        self.adaptors("noshx", false)?;
        self.adaptors("shx", true)?;
        // B: typed, matching the header type and not matching
        let hty = if self.shp.len() >= 36 {
            Ty::from_code(i32::from_le_bytes(self.shp[32..36].try_into().unwrap()))
        } else {
            None
        };
        let matching = hty.filter(|t| *t != Ty::Null).unwrap_or(Ty::Polygon);
        let other = if matching == Ty::PolylineZ { Ty::Multipatch } else { Ty::PolylineZ };
        for t in [matching, other] {
            struct T<'b, 'a>(&'b mut Ex<'a>);
            impl KindFn for T<'_, '_> {
                type Out = Result<(), Fail>;
                fn call<K: Kind>(self) -> Self::Out
                where
                    Error: From<<K as TryFrom<Shape>>::Error>,
                {
                    self.0.run_typed::<K>()
                }
            }
            dispatch(t, T(self))?;
        }
        // D: with index
        if let Some(mut r) = self.open("shx", true)? {
            let n = r.shape_count().unwrap_or(0);
            self.iterate::<Shape>("shx iter_shapes", &mut r, false)?;
            let mut idx: Vec<usize> = vec![0, 1, n.wrapping_sub(1), n, usize::MAX];
            if n <= 8 {
                idx.extend(0..n);
            }
            for i in idx {
                self.call(&format!("shx read_nth_shape({})", i), || r.read_nth_shape(i).map(|x| x.map(|_| ())))?;
            }
            for i in [0usize, 1, n, usize::MAX] {
                let sk = self.call(&format!("shx seek({})", i), || r.seek(i).is_ok())?;
                if sk {
                    self.iterate::<Shape>(&format!("shx seek({}) then iter_shapes", i), &mut r, false)?;
                }
            }
            self.call("shx shape_count", || r.shape_count().ok())?;
        }
        if let Some(r) = self.open("shx", true)? {
            self.call("shx read()", move || r.read().map(|v| v.len()))?.ok();
        }
        Ok(())
    }
}

pub fn exercise(shp: &[u8], shx: &[u8], check_alloc: bool) -> Result<Outcome, Fail> {
    let total = shp.len() + shx.len();
    let mut ex = Ex {
        shp,
        shx,
        cap: shp.len() / 8 + shx.len() / 8 + 16,
        bound: 64 * total + 16 * 1024,
        check_alloc,
        out: Outcome::default(),
    };
    ex.run()?;
    Ok(ex.out)
}



/// The same bytes as FILES, opened by path (`ShapeReader::from_path`, `read_shapes`): next to the .shx and alone.
/// Panics are caught; iterators are capped; the allocation bound uses a larger constant (two 8 KiB BufReaders, paths).
pub fn exercise_path(shp: &[u8], shx: &[u8], dir: &std::path::Path, check_alloc: bool) -> Result<(), Fail> {
    let total = shp.len() + shx.len();
    let cap = shp.len() / 8 + shx.len() / 8 + 16;
    let bound = 64 * total + 128 * 1024;
    let p = dir.join("exercise.shp");
    let px = p.with_extension("shx");
    std::fs::write(&p, shp).map_err(|e| Fail::new("harness/disk-io", e.to_string()))?;
    let call = |what: &str, f: &mut dyn FnMut() -> Result<(), Fail>| -> Result<(), Fail> {
        let (r, peak) = alloc::window(|| guard(|| f()));
        match r {
            Ok(r) => r?,
            Err(pn) => return Err(Fail::new(&panic_key(&pn), format!("{}: panic: {}", what, pn))),
        }
        if check_alloc && peak.peak > bound {
            return Err(Fail::new(
                "alloc-bound",
                format!("{}: peak of {} bytes requested (largest single request {}) for {} + {} input bytes on disk; bound is 64 x input + 128 KiB = {}", what, peak.peak, peak.largest, shp.len(), shx.len(), bound),
            ));
        }
        Ok(())
    };
    for with_shx in [true, false] {
        if with_shx {
            std::fs::write(&px, shx).map_err(|e| Fail::new("harness/disk-io", e.to_string()))?;
        } else {
            let _ = std::fs::remove_file(&px);
        }
        let tag = if with_shx { "by path, with .shx" } else { "by path, no .shx" };
        call(&format!("{}: from_path + iteration", tag), &mut || {
            if let Ok(mut r) = ShapeReader::from_path(&p) {
                let mut n = 0usize;
                for item in r.iter_shapes() {
                    let _ = item;
                    n += 1;
                    ensure!(n <= cap, "unbounded-iteration", "{}: more than {} items from {} + {} input bytes", tag, cap, shp.len(), shx.len());
                }
                let _ = r.shape_count();
                let _ = r.read_nth_shape(0).map(|x| x.map(|_| ()));
                let _ = r.read_nth_shape(usize::MAX).map(|x| x.map(|_| ()));
                if r.seek(1).is_ok() {
                    let _ = r.iter_shapes().next().map(|x| x.map(|_| ()));
                }
            }
            Ok(())
        })?;
        call(&format!("{}: read_shapes", tag), &mut || {
            let _ = shapefile::read_shapes(&p).map(|v| v.len());
            Ok(())
        })?;
    }
    let _ = std::fs::remove_file(&p);
    let _ = std::fs::remove_file(&px);
    Ok(())
}

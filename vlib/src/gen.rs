//! proptest strategies: floats (bit level), vertices, shapes per type honouring exactly the
//! constructors' preconditions, files. Every random choice lives in a strategy so cases shrink and replay.

use crate::model::*;
use proptest::collection::vec;
use proptest::prelude::*;

pub fn next_up(v: f64) -> f64 {
    let b = v.to_bits();
    if v.is_nan() || v == f64::INFINITY {
        return v;
    }
    if v == 0.0 {
        return f64::from_bits(1);
    }
    if v > 0.0 {
        f64::from_bits(b + 1)
    } else {
        f64::from_bits(b - 1)
    }
}
pub fn next_down(v: f64) -> f64 {
    -next_up(-v)
}

#[derive(Clone, Copy, PartialEq, Eq, Debug)]
pub enum Profile {
    /// k/256 with |v| <= 64: the shoelace sum is exact in f64
    Dyadic,
    /// small integers and halves
    Small,
    /// any non-NaN double incl. +-0, subnormals, +-inf, f64::MAX/MIN and neighbours
    NonNan,
    /// finite and moderate (|v| < 1e6), arbitrary mantissa
    Moderate,
    /// k/256 within +-4 of a per-shape base point up to +-2^23 away from the origin: small shapes far
    /// from the origin, where a naive area formula cancels catastrophically but the edge-wise sum is exact
    FarDyadic,
    /// as FarDyadic but the shape spans only a few 1/256 steps: its area is far below one ulp of x*y
    FarTiny,
    /// as NonNan, with one coordinate in eight a NaN: X and Y included
    WithNan,
}

pub fn f_dyadic() -> BoxedStrategy<F> {
    (-16384i32..=16384).prop_map(|k| F::of(k as f64 / 256.0)).boxed()
}

pub fn f_small() -> BoxedStrategy<F> {
    (-40i32..=40).prop_map(|k| F::of(k as f64 / 2.0)).boxed()
}

pub fn f_moderate() -> BoxedStrategy<F> {
    (-1.0e6f64..1.0e6f64).prop_map(F::of).boxed()
}

const SPECIALS: [f64; 22] = [
    0.0,
    -0.0,
    f64::INFINITY,
    f64::NEG_INFINITY,
    f64::MAX,
    f64::MIN,
    f64::MIN_POSITIVE,
    -f64::MIN_POSITIVE,
    5e-324,
    -5e-324,
    1.0,
    -1.0,
    1.7976931348623155e308,  // next below MAX
    -1.7976931348623155e308, // next above MIN
    -10e38,
    -1.0000000000000002e39, // just below NO_DATA
    -9.999999999999999e38,  // just above NO_DATA
    -1e38,
    1e38,
    2.2250738585072009e-308, // largest subnormal
    4503599627370496.0,
    -4503599627370497.0,
];

pub fn f_special() -> BoxedStrategy<F> {
    (0usize..SPECIALS.len()).prop_map(|i| F::of(SPECIALS[i])).boxed()
}

pub fn f_bits_nonnan() -> BoxedStrategy<F> {
    any::<u64>()
        .prop_map(|b| {
            let v = f64::from_bits(b);
            if v.is_nan() {
                // fold NaNs onto finite values deterministically (clear the top exponent bit)
                F(b & !(1u64 << 62))
            } else {
                F(b)
            }
        })
        .boxed()
}

pub fn f_nan() -> BoxedStrategy<F> {
    prop_oneof![
        Just(F(f64::NAN.to_bits())),
        Just(F(0x7ff0000000000001)),
        Just(F(0xfff8000000000000)),
        Just(F(0x7fffffffffffffff)),
        any::<u64>().prop_map(|b| F(0x7ff0000000000000 | (b & 0x000fffffffffffff) | 1)),
    ]
    .boxed()
}

pub fn f_nonnan() -> BoxedStrategy<F> {
    prop_oneof![
        4 => f_small(),
        2 => f_dyadic(),
        2 => f_moderate(),
        2 => f_special(),
        2 => f_bits_nonnan(),
    ]
    .boxed()
}

pub fn f_profile(p: Profile) -> BoxedStrategy<F> {
    match p {
        Profile::Dyadic => f_dyadic(),
        Profile::Small => f_small(),
        Profile::NonNan => f_nonnan(),
        Profile::Moderate => f_moderate(),
        Profile::FarDyadic => (-1024i32..=1024).prop_map(|k| F::of(k as f64 / 256.0)).boxed(),
        Profile::FarTiny => (-6i32..=6).prop_map(|k| F::of(k as f64 / 256.0)).boxed(),
        Profile::WithNan => prop_oneof![4 => f_small(), 3 => f_nonnan(), 1 => f_nan()].boxed(),
    }
}

/// Measures: the values around the no-data threshold get extra weight.
pub fn f_measure(p: Profile, nan: bool) -> BoxedStrategy<F> {
    let around = prop_oneof![
        Just(F::of(NO_DATA)),
        Just(F::of(next_up(NO_DATA))),
        Just(F::of(next_down(NO_DATA))),
        Just(F::of(-1e38)),
        Just(F::of(f64::NEG_INFINITY)),
        Just(F::of(f64::MIN)),
        Just(F::of(-2e38 * 10.0)),
    ];
    if nan {
        prop_oneof![6 => f_profile(p), 2 => around, 1 => f_nan()].boxed()
    } else {
        prop_oneof![6 => f_profile(p), 2 => around].boxed()
    }
}

pub fn f_z(p: Profile, nan: bool) -> BoxedStrategy<F> {
    if nan {
        prop_oneof![10 => f_profile(p), 1 => f_nan()].boxed()
    } else {
        f_profile(p)
    }
}

#[derive(Clone, Copy, Debug)]
pub struct GenCfg {
    pub profile: Profile,
    /// allow NaN in Z and M
    pub nan_zm: bool,
    pub max_parts: usize,
    pub max_pts: usize,
}

impl GenCfg {
    pub fn new(profile: Profile, nan_zm: bool, max_parts: usize, max_pts: usize) -> GenCfg {
        GenCfg {
            profile,
            nan_zm,
            max_parts,
            max_pts,
        }
    }
}

pub fn vertex(ty: Ty, c: GenCfg) -> BoxedStrategy<V> {
    let x = f_profile(c.profile);
    let y = f_profile(c.profile);
    let z = if ty.has_z() {
        f_z(c.profile, c.nan_zm)
    } else {
        Just(F(0)).boxed()
    };
    let m = if ty.carries_m() {
        f_measure(c.profile, c.nan_zm)
    } else {
        Just(F(0)).boxed()
    };
    (x, y, z, m).prop_map(|(x, y, z, m)| [x, y, z, m]).boxed()
}

/// Skewed size: mostly small, occasionally up to `max`.
pub fn size(min: usize, max: usize) -> BoxedStrategy<usize> {
    let max = max.max(min);
    let small_hi = (min + 4).min(max);
    let mid_hi = (min + 16).min(max);
    prop_oneof![
        6 => min..=small_hi,
        2 => min..=mid_hi,
        1 => min..=max,
    ]
    .boxed()
}

/// Vector with a skewed length (mostly small, occasionally up to `max`) that still shrinks by
/// dropping elements.
pub fn svec<T: std::fmt::Debug + Clone + 'static>(elem: BoxedStrategy<T>, min: usize, max: usize) -> BoxedStrategy<Vec<T>> {
    let max = max.max(min);
    let small_hi = (min + 4).min(max);
    let mid_hi = (min + 16).min(max);
    prop_oneof![
        6 => vec(elem.clone(), min..=small_hi),
        2 => vec(elem.clone(), min..=mid_hi),
        1 => vec(elem, min..=max),
    ]
    .boxed()
}

fn pts(ty: Ty, c: GenCfg, min: usize) -> BoxedStrategy<Vec<V>> {
    svec(vertex(ty, c), min, c.max_pts.max(min))
}

/// Ring input: random vertices, then optionally closed already, optionally degenerate (collinear /
/// repeated vertices), either orientation comes from the randomness of the vertices themselves plus an
/// explicit reversal bit.
fn ring_pts(ty: Ty, c: GenCfg, min: usize) -> BoxedStrategy<Vec<V>> {
    (pts(ty, c, min), 0u8..8, any::<bool>())
        .prop_map(|(mut p, shape, rev)| {
            match shape {
                0 | 1 => {
                    // already closed
                    if let Some(f) = p.first().copied() {
                        p.push(f);
                    }
                }
                2 => {
                    // collinear: all on the line y = y0
                    if let Some(f) = p.first().copied() {
                        for v in p.iter_mut() {
                            v[1] = f[1];
                        }
                    }
                }
                3 => {
                    // repeated vertex in the middle
                    if p.len() >= 2 {
                        let d = p[p.len() / 2];
                        p.insert(p.len() / 2, d);
                    }
                }
                _ => {}
            }
            if rev {
                p.reverse();
            }
            p
        })
        .boxed()
}

/// Input geometry for the constructors of `ty` (bbox left zero, it is not an input).
pub fn geom(ty: Ty, c: GenCfg) -> BoxedStrategy<Geom> {
    // one shape in twelve has an all-(signed-)zero Z and/or M array: -0.0 == 0.0, yet the bits differ
    (geom_placed(ty, c), 0u8..36)
        .prop_map(move |(mut g, flat)| {
            if (3..6).contains(&flat) && ty.carries_m() && c.nan_zm {
                // every measure is the NO_DATA constant: "this shape has no measures"
                for p in g.parts.iter_mut() {
                    for v in p.pts.iter_mut() {
                        v[3] = F::of(NO_DATA);
                    }
                }
            }
            if flat < 3 {
                for p in g.parts.iter_mut() {
                    for v in p.pts.iter_mut() {
                        if ty.has_z() && flat != 1 {
                            v[2] = F::of(0.0f64.copysign(if v[2].is_nan() { 1.0 } else { v[2].v() }));
                        }
                        if ty.carries_m() && flat != 0 {
                            v[3] = F::of(0.0f64.copysign(if v[3].is_nan() { -1.0 } else { v[3].v() }));
                        }
                    }
                }
            }
            g
        })
        .boxed()
}

fn geom_placed(ty: Ty, c: GenCfg) -> BoxedStrategy<Geom> {
    if c.profile != Profile::FarDyadic && c.profile != Profile::FarTiny {
        return geom_base(ty, c);
    }
    // shift the whole shape by a base point far from the origin (whole numbers and 1/256 fractions)
    let base = || prop_oneof![
        3 => (-8_388_608i64..=8_388_608).prop_map(|k| k as f64),
        1 => (-2_000_000_000i64..=2_000_000_000).prop_map(|k| k as f64 / 256.0),
        1 => Just(500_000.0f64),
        1 => Just(4_649_776.0f64),
    ];
    (geom_base(ty, c), base(), base())
        .prop_map(|(mut g, bx, by)| {
            for p in g.parts.iter_mut() {
                for v in p.pts.iter_mut() {
                    v[0] = F::of(v[0].v() + bx);
                    v[1] = F::of(v[1].v() + by);
                }
            }
            g
        })
        .boxed()
}

fn geom_base(ty: Ty, c: GenCfg) -> BoxedStrategy<Geom> {
    let mk = move |parts: Vec<Part>| Geom {
        ty,
        parts,
        bbox: [F(0); 8],
        m_present: ty.carries_m(),
    };
    match ty.family() {
        Family::Null => Just(Geom::null()).boxed(),
        Family::Point => vertex(ty, c)
            .prop_map(move |v| {
                mk(vec![Part {
                    kind: 0,
                    pts: vec![v],
                }])
            })
            .boxed(),
        Family::Multipoint => pts(ty, c, 1)
            .prop_map(move |p| mk(vec![Part { kind: 0, pts: p }]))
            .boxed(),
        Family::Polyline => svec(pts(ty, c, 2), 1, c.max_parts)
            .prop_map(move |ps| mk(ps.into_iter().map(|p| Part { kind: 0, pts: p }).collect()))
            .boxed(),
        Family::Polygon => (
            (0i32..=1, ring_pts(ty, c, 1)),
            svec((0i32..=1, ring_pts(ty, c, 0)).boxed(), 0, c.max_parts.saturating_sub(1)),
        )
            .prop_map(move |(first, rest)| {
                let mut parts = vec![Part {
                    kind: first.0,
                    pts: first.1,
                }];
                parts.extend(rest.into_iter().map(|(k, p)| Part { kind: k, pts: p }));
                mk(parts)
            })
            .boxed(),
        Family::Multipatch => (
            (0i32..=5, ring_pts(ty, c, 1)),
            svec((0i32..=5, ring_pts(ty, c, 0)).boxed(), 0, c.max_parts.saturating_sub(1)),
        )
            .prop_map(move |(first, rest)| {
                let mut parts = vec![Part {
                    kind: first.0,
                    pts: first.1,
                }];
                parts.extend(rest.into_iter().map(|(k, p)| Part { kind: k, pts: p }));
                mk(parts)
            })
            .boxed(),
    }
}

/// Index into the 13 types, chosen by proptest (shrinks toward Point).
pub fn ty13() -> BoxedStrategy<Ty> {
    (0usize..13).prop_map(|i| ALL13[i]).boxed()
}

pub fn profile_mix() -> BoxedStrategy<Profile> {
    prop_oneof![
        3 => Just(Profile::Small),
        3 => Just(Profile::Dyadic),
        1 => Just(Profile::FarDyadic),
        2 => Just(Profile::FarTiny),
        3 => Just(Profile::NonNan),
        1 => Just(Profile::Moderate),
    ]
    .boxed()
}

/// The mix for checks whose property does not exclude NaN coordinates.
pub fn profile_mix_nan() -> BoxedStrategy<Profile> {
    prop_oneof![8 => profile_mix(), 1 => Just(Profile::WithNan)].boxed()
}

/// n shapes of one type, n skewed small, sizes deliberately unequal.
pub fn shapes(ty: Ty, min_n: usize, max_n: usize, nan_zm: bool, max_parts: usize, max_pts: usize) -> BoxedStrategy<Vec<Geom>> {
    (if nan_zm { profile_mix_nan() } else { profile_mix() }, 0u8..12, any::<u16>())
        .prop_flat_map(move |(p, rel, ix)| {
            svec(geom(ty, GenCfg::new(p, nan_zm, max_parts, max_pts)), min_n, max_n).prop_map(move |mut v| {
                // relations BETWEEN the shapes of a file: a shape repeated right after itself, all shapes identical,
                // or the sequence reversed (record-to-record state would show here)
                if v.len() >= 1 && v.len() < max_n.max(2) {
                    match rel {
                        0 => {
                            let i = pick(ix, v.len());
                            let d = v[i].clone();
                            v.insert(i + 1, d);
                        }
                        1 => {
                            let d = v[pick(ix, v.len())].clone();
                            for s in v.iter_mut() {
                                *s = d.clone();
                            }
                        }
                        2 => v.reverse(),
                        _ => {}
                    }
                }
                // a shape without any vertex (a value that only reading a file produces) somewhere in the sequence
                if nan_zm && rel == 3 && ty.family() != Family::Point && !v.is_empty() && v.len() < max_n.max(2) {
                    let i = pick(ix, v.len() + 1);
                    v.insert(i, crate::kinds::empty_geom(ty));
                }
                v
            })
        })
        .boxed()
}

/// Monotone index mapping (shrinks well, unlike `%`).
pub fn pick(ix: u16, len: usize) -> usize {
    ((ix as usize) * len) >> 16
}

// ---------------------------------------------------------------------------------------------
// file-level models for the reference encoder (layouts the library's writer never emits)

pub fn f_anybits() -> BoxedStrategy<F> {
    prop_oneof![
        4 => f_small(),
        2 => f_dyadic(),
        2 => f_special(),
        2 => any::<u64>().prop_map(F),
        1 => f_nan(),
    ]
    .boxed()
}

fn fvertex(ty: Ty, xy: BoxedStrategy<F>) -> BoxedStrategy<V> {
    let z = if ty.has_z() { f_anybits() } else { Just(F(0)).boxed() };
    let m = if ty.carries_m() {
        prop_oneof![3 => f_anybits(), 1 => f_measure(Profile::Small, true)].boxed()
    } else {
        Just(F(0)).boxed()
    };
    (xy.clone(), xy, z, m).prop_map(|(x, y, z, m)| [x, y, z, m]).boxed()
}

/// A record as a foreign producer may store it: any part structure (zero parts, empty parts, single
/// vertices), optional M block present or absent, arbitrary stored box.
pub fn fgeom(ty: Ty, max_parts: usize, max_pts: usize) -> BoxedStrategy<Geom> {
    if ty == Ty::Null {
        return Just(Geom::null()).boxed();
    }
    let xy = prop_oneof![2 => f_dyadic(), 2 => f_small(), 1 => f_anybits()];
    let bbox = proptest::array::uniform8(prop_oneof![3 => f_small(), 1 => f_anybits()]);
    let kinds = if ty == Ty::Multipatch { 0i32..=5 } else { 0i32..=0 };
    let m_present = if ty == Ty::PointM || !ty.carries_m() {
        Just(ty == Ty::PointM).boxed()
    } else {
        any::<bool>().boxed()
    };
    let parts: BoxedStrategy<Vec<Part>> = match ty.family() {
        Family::Point => fvertex(ty, xy.clone().boxed())
            .prop_map(|v| vec![Part { kind: 0, pts: vec![v] }])
            .boxed(),
        Family::Multipoint => xy
            .clone()
            .prop_flat_map(move |_| svec(fvertex(ty, f_profile(Profile::Small)), 0, max_pts))
            .prop_map(|p| vec![Part { kind: 0, pts: p }])
            .boxed(),
        _ => {
            let xyb = xy.boxed();
            svec(
                (kinds, svec(fvertex(ty, xyb), 0, max_pts)).prop_map(|(k, p)| Part { kind: k, pts: p }).boxed(),
                0,
                max_parts,
            )
        }
    };
    (parts, bbox, m_present)
        .prop_map(move |(parts, bbox, m_present)| {
            Geom {
                ty,
                parts,
                bbox,
                m_present,
            }
            .canon_file()
        })
        .boxed()
}

pub fn ty14() -> BoxedStrategy<Ty> {
    (0usize..14).prop_map(|i| ALL14[i]).boxed()
}


/// Constructor input with part count and points per part drawn from the given ranges (clamped to
/// each family's preconditions); for the point family the ranges are ignored.
pub fn geom_sized(ty: Ty, c: GenCfg, parts: std::ops::RangeInclusive<usize>, pts: std::ops::RangeInclusive<usize>) -> BoxedStrategy<Geom> {
    let v = vertex(ty, c);
    let mk = move |parts: Vec<Part>| Geom {
        ty,
        parts,
        bbox: [F(0); 8],
        m_present: ty.carries_m(),
    };
    let (plo, phi) = (*pts.start(), *pts.end());
    match ty.family() {
        Family::Null | Family::Point => geom(ty, c),
        Family::Multipoint => {
            // "parts" has no meaning: use parts*pts points
            let lo = (plo.max(1) * *parts.start()).max(1);
            let hi = (phi.max(1) * *parts.end()).max(lo);
            vec(v, lo..=hi.min(lo + 400)).prop_map(move |p| mk(vec![Part { kind: 0, pts: p }])).boxed()
        }
        fam => {
            let min_pts = if fam == Family::Polyline { 2 } else { 0 };
            let kinds = match fam {
                Family::Multipatch => 0i32..=5,
                Family::Polygon => 0i32..=1,
                _ => 0i32..=0,
            };
            let part = (kinds, vec(v, plo.max(min_pts)..=phi.max(min_pts).max(plo))).prop_map(|(kind, pts)| Part { kind, pts });
            vec(part, parts)
                .prop_map(move |mut ps| {
                    // first ring / patch must not be empty
                    if ps[0].pts.is_empty() {
                        ps[0].pts.push(v4(1.0, 2.0, 3.0, 4.0));
                    }
                    mk(ps).canon()
                })
                .boxed()
        }
    }
}


/// File-level record with part count / points per part drawn from the given ranges.
pub fn fgeom_sized(ty: Ty, parts: std::ops::RangeInclusive<usize>, pts: std::ops::RangeInclusive<usize>) -> BoxedStrategy<Geom> {
    if ty == Ty::Null || ty.family() == Family::Point {
        return fgeom(ty, 1, 1);
    }
    let xy = prop_oneof![2 => f_dyadic(), 2 => f_small(), 1 => f_anybits()].boxed();
    let kinds = if ty == Ty::Multipatch { 0i32..=5 } else { 0i32..=0 };
    let m_present = if ty.carries_m() { any::<bool>().boxed() } else { Just(false).boxed() };
    let bbox = proptest::array::uniform8(f_small());
    let np = if ty.family() == Family::Multipoint { 1..=1 } else { parts };
    let pr = if ty.family() == Family::Multipoint { (*pts.start() * 2)..=(*pts.end() * 2).max(1) } else { pts };
    let part = (kinds, vec(fvertex(ty, xy), pr)).prop_map(|(kind, pts)| Part { kind, pts });
    (vec(part, np), bbox, m_present)
        .prop_map(move |(parts, bbox, m_present)| {
            Geom {
                ty,
                parts,
                bbox,
                m_present,
            }
            .canon_file()
        })
        .boxed()
}

//! Independent ESRI shapefile codec written from the whitepaper (ESRI Shapefile Technical
//! Description, July 1998). No `byteorder`, nothing from the `shapefile` crate: integers and doubles
//! are (de)serialised with `from_be_bytes` / `from_le_bytes` on slices.
//!
//! * `encode`        reference encoder, able to emit layouts the library's writer never produces;
//! * `decode(.., Strict)`  validator/decoder enforcing every clause of property C02;
//! * `decode(.., Layout)`  the same field-by-field decoding without the clauses a foreign producer may
//!                         legitimately break (record numbers, trailing bytes after the declared length).

use crate::model::*;
use serde::{Deserialize, Serialize};

#[derive(Clone, PartialEq, Eq, Hash, Debug, Serialize, Deserialize)]
pub struct Rec {
    pub number: i32,
    /// `geom.ty == Ty::Null` for a null record.
    pub geom: Geom,
}

#[derive(Clone, PartialEq, Eq, Hash, Debug, Serialize, Deserialize)]
pub struct FileModel {
    pub ty: Ty,
    pub header_bbox: BBox,
    pub recs: Vec<Rec>,
    /// Bytes placed after the declared file length (must be ignored by readers).
    pub trailing: Vec<u8>,
    /// Physical order: position k of the file holds record `order[k]`. Empty = identity.
    pub order: Vec<usize>,
    /// Filler bytes before physical record k (k < n) and after the last one (k == n); they are inside
    /// the declared length. Empty = none. Only meaningful together with an index file.
    pub fillers: Vec<Vec<u8>>,
}

impl FileModel {
    pub fn simple(ty: Ty, geoms: Vec<Geom>) -> FileModel {
        let recs = geoms
            .into_iter()
            .enumerate()
            .map(|(i, g)| Rec {
                number: i as i32 + 1,
                geom: g,
            })
            .collect();
        FileModel {
            ty,
            header_bbox: [F(0); 8],
            recs,
            trailing: vec![],
            order: vec![],
            fillers: vec![],
        }
    }
}

#[derive(Clone, Copy, PartialEq, Eq, Hash, Debug, Serialize, Deserialize)]
pub enum FieldKind {
    HeaderLength,
    HeaderType,
    HeaderVersion,
    RecNumber,
    RecLength,
    RecType,
    NumParts,
    NumPoints,
    PartOffset,
    PatchKind,
    ShxHeaderLength,
    ShxHeaderType,
    ShxOffset,
    ShxLength,
}

#[derive(Clone, Copy, PartialEq, Eq, Hash, Debug, Serialize, Deserialize)]
pub struct Field {
    pub in_shx: bool,
    pub off: usize,
    pub big_endian: bool,
    pub kind: FieldKind,
    pub value: i32,
}

#[derive(Clone, Debug, Default)]
pub struct Encoded {
    pub shp: Vec<u8>,
    pub shx: Vec<u8>,
    pub fields: Vec<Field>,
    /// (offset of record header, content length in bytes) per record, in *index* order.
    pub rec_spans: Vec<(usize, usize)>,
}

fn be32(out: &mut Vec<u8>, v: i32) {
    out.extend_from_slice(&v.to_be_bytes());
}
fn le32(out: &mut Vec<u8>, v: i32) {
    out.extend_from_slice(&v.to_le_bytes());
}
fn lef(out: &mut Vec<u8>, v: F) {
    out.extend_from_slice(&v.0.to_le_bytes());
}

pub fn header_bytes(len_words: i32, ty_code: i32, bbox: &BBox) -> Vec<u8> {
    let mut h = Vec::with_capacity(100);
    be32(&mut h, 9994);
    for _ in 0..5 {
        be32(&mut h, 0);
    }
    be32(&mut h, len_words);
    le32(&mut h, 1000);
    le32(&mut h, ty_code);
    // Xmin, Ymin, Xmax, Ymax, Zmin, Zmax, Mmin, Mmax
    for k in 0..8 {
        lef(&mut h, bbox[k]);
    }
    h
}

/// Content (type code included) of one record, plus the field sites inside it (offsets relative to
/// the start of the content).
pub fn encode_content(g: &Geom) -> (Vec<u8>, Vec<(usize, FieldKind, i32)>) {
    let mut c = Vec::new();
    let mut f = Vec::new();
    f.push((0usize, FieldKind::RecType, g.ty.code()));
    le32(&mut c, g.ty.code());
    match g.ty.family() {
        Family::Null => {}
        Family::Point => {
            let v = g.parts[0].pts[0];
            lef(&mut c, v[0]);
            lef(&mut c, v[1]);
            match g.ty {
                Ty::PointM => lef(&mut c, v[3]),
                Ty::PointZ => {
                    lef(&mut c, v[2]);
                    if g.m_present {
                        lef(&mut c, v[3]);
                    }
                }
                _ => {}
            }
        }
        fam => {
            for k in 0..4 {
                lef(&mut c, g.bbox[k]);
            }
            let npts: usize = g.npoints();
            if fam != Family::Multipoint {
                f.push((c.len(), FieldKind::NumParts, g.parts.len() as i32));
                le32(&mut c, g.parts.len() as i32);
            }
            f.push((c.len(), FieldKind::NumPoints, npts as i32));
            le32(&mut c, npts as i32);
            if fam != Family::Multipoint {
                let mut off = 0i32;
                for p in &g.parts {
                    f.push((c.len(), FieldKind::PartOffset, off));
                    le32(&mut c, off);
                    off += p.pts.len() as i32;
                }
            }
            if fam == Family::Multipatch {
                for p in &g.parts {
                    f.push((c.len(), FieldKind::PatchKind, p.kind));
                    le32(&mut c, p.kind);
                }
            }
            for v in g.all_pts() {
                lef(&mut c, v[0]);
                lef(&mut c, v[1]);
            }
            if g.ty.has_z() {
                lef(&mut c, g.bbox[4]);
                lef(&mut c, g.bbox[5]);
                for v in g.all_pts() {
                    lef(&mut c, v[2]);
                }
            }
            if g.ty.carries_m() && g.m_present {
                lef(&mut c, g.bbox[6]);
                lef(&mut c, g.bbox[7]);
                for v in g.all_pts() {
                    lef(&mut c, v[3]);
                }
            }
        }
    }
    (c, f)
}

pub fn encode(m: &FileModel) -> Encoded {
    let n = m.recs.len();
    let order: Vec<usize> = if m.order.is_empty() {
        (0..n).collect()
    } else {
        m.order.clone()
    };
    assert_eq!(order.len(), n);
    let mut body = Vec::new();
    let mut fields = Vec::new();
    let mut spans = vec![(0usize, 0usize); n];
    for (k, &ri) in order.iter().enumerate() {
        if let Some(fl) = m.fillers.get(k) {
            body.extend_from_slice(fl);
        }
        let r = &m.recs[ri];
        let (content, cf) = encode_content(&r.geom);
        let off = 100 + body.len();
        spans[ri] = (off, content.len());
        fields.push(Field {
            in_shx: false,
            off,
            big_endian: true,
            kind: FieldKind::RecNumber,
            value: r.number,
        });
        be32(&mut body, r.number);
        fields.push(Field {
            in_shx: false,
            off: off + 4,
            big_endian: true,
            kind: FieldKind::RecLength,
            value: (content.len() / 2) as i32,
        });
        be32(&mut body, (content.len() / 2) as i32);
        for (o, kind, value) in cf {
            fields.push(Field {
                in_shx: false,
                off: off + 8 + o,
                big_endian: false,
                kind,
                value,
            });
        }
        body.extend_from_slice(&content);
    }
    if let Some(fl) = m.fillers.get(n) {
        body.extend_from_slice(fl);
    }
    let total = 100 + body.len();
    let mut shp = header_bytes((total / 2) as i32, m.ty.code(), &m.header_bbox);
    fields.push(Field {
        in_shx: false,
        off: 24,
        big_endian: true,
        kind: FieldKind::HeaderLength,
        value: (total / 2) as i32,
    });
    fields.push(Field {
        in_shx: false,
        off: 28,
        big_endian: false,
        kind: FieldKind::HeaderVersion,
        value: 1000,
    });
    fields.push(Field {
        in_shx: false,
        off: 32,
        big_endian: false,
        kind: FieldKind::HeaderType,
        value: m.ty.code(),
    });
    shp.extend_from_slice(&body);
    shp.extend_from_slice(&m.trailing);

    let shx_words = 50 + 4 * n as i32;
    let mut shx = header_bytes(shx_words, m.ty.code(), &m.header_bbox);
    fields.push(Field {
        in_shx: true,
        off: 24,
        big_endian: true,
        kind: FieldKind::ShxHeaderLength,
        value: shx_words,
    });
    fields.push(Field {
        in_shx: true,
        off: 32,
        big_endian: false,
        kind: FieldKind::ShxHeaderType,
        value: m.ty.code(),
    });
    for (i, (off, len)) in spans.iter().enumerate() {
        fields.push(Field {
            in_shx: true,
            off: 100 + 8 * i,
            big_endian: true,
            kind: FieldKind::ShxOffset,
            value: (*off / 2) as i32,
        });
        be32(&mut shx, (*off / 2) as i32);
        fields.push(Field {
            in_shx: true,
            off: 104 + 8 * i,
            big_endian: true,
            kind: FieldKind::ShxLength,
            value: (*len / 2) as i32,
        });
        be32(&mut shx, (*len / 2) as i32);
    }
    Encoded {
        shp,
        shx,
        fields,
        rec_spans: spans,
    }
}

pub fn patch_field(bytes: &mut [u8], f: &Field, v: i32) {
    let b = if f.big_endian {
        v.to_be_bytes()
    } else {
        v.to_le_bytes()
    };
    bytes[f.off..f.off + 4].copy_from_slice(&b);
}

// --------------------------------------------------------------------------------------------
// decoder

#[derive(Clone, Copy, PartialEq, Eq, Debug)]
pub enum Mode {
    Strict,
    Layout,
}

#[derive(Clone, Debug)]
pub struct DRec {
    pub number: i32,
    pub offset: usize,
    pub content_len: usize,
    pub geom: Geom,
}

#[derive(Clone, Debug)]
pub struct Decoded {
    pub ty: Ty,
    pub declared_len: usize,
    pub header_bbox: BBox,
    pub recs: Vec<DRec>,
    pub trailing: usize,
}

struct Cur<'a> {
    b: &'a [u8],
    p: usize,
}
impl<'a> Cur<'a> {
    fn need(&self, n: usize, what: &str) -> Result<(), String> {
        if self.p + n > self.b.len() {
            Err(format!(
                "truncated: need {} bytes for {} at offset {} (have {})",
                n,
                what,
                self.p,
                self.b.len()
            ))
        } else {
            Ok(())
        }
    }
    fn be(&mut self, what: &str) -> Result<i32, String> {
        self.need(4, what)?;
        let v = i32::from_be_bytes(self.b[self.p..self.p + 4].try_into().unwrap());
        self.p += 4;
        Ok(v)
    }
    fn le(&mut self, what: &str) -> Result<i32, String> {
        self.need(4, what)?;
        let v = i32::from_le_bytes(self.b[self.p..self.p + 4].try_into().unwrap());
        self.p += 4;
        Ok(v)
    }
    fn f(&mut self, what: &str) -> Result<F, String> {
        self.need(8, what)?;
        let v = u64::from_le_bytes(self.b[self.p..self.p + 8].try_into().unwrap());
        self.p += 8;
        Ok(F(v))
    }
}

pub struct HeaderInfo {
    pub len_words: i32,
    pub ty_code: i32,
    pub bbox: BBox,
}

pub fn decode_header(bytes: &[u8]) -> Result<HeaderInfo, String> {
    if bytes.len() < 100 {
        return Err(format!("header: only {} bytes", bytes.len()));
    }
    let mut c = Cur { b: bytes, p: 0 };
    let code = c.be("file code")?;
    if code != 9994 {
        return Err(format!("header: file code {}", code));
    }
    for i in 0..5 {
        let w = c.be("unused")?;
        if w != 0 {
            return Err(format!("header: unused word {} is {:#x}", i, w));
        }
    }
    let len_words = c.be("length")?;
    let version = c.le("version")?;
    if version != 1000 {
        return Err(format!("header: version {}", version));
    }
    let ty_code = c.le("type")?;
    let mut bbox = [F(0); 8];
    for k in 0..8 {
        bbox[k] = c.f("box")?;
    }
    Ok(HeaderInfo {
        len_words,
        ty_code,
        bbox,
    })
}

/// Decode the content of one record (after the type code) whose total content length is `clen`
/// bytes (type code included).
fn decode_content(c: &mut Cur, ty: Ty, clen: usize) -> Result<Geom, String> {
    let start = c.p - 4;
    let end = start + clen;
    let body = clen - 4;
    let mut g = Geom {
        ty,
        parts: vec![],
        bbox: [F(0); 8],
        m_present: false,
    };
    match ty.family() {
        Family::Null => {
            if body != 0 {
                return Err(format!("null record with {} content bytes", body));
            }
        }
        Family::Point => {
            let want: &[usize] = match ty {
                Ty::Point => &[16],
                Ty::PointM => &[24],
                _ => &[32, 24],
            };
            if !want.contains(&body) {
                return Err(format!("{}: content body {} bytes", ty.name(), body));
            }
            let mut v = [F(0); 4];
            v[0] = c.f("x")?;
            v[1] = c.f("y")?;
            match ty {
                Ty::PointM => {
                    v[3] = c.f("m")?;
                    g.m_present = true;
                }
                Ty::PointZ => {
                    v[2] = c.f("z")?;
                    if body == 32 {
                        v[3] = c.f("m")?;
                        g.m_present = true;
                    }
                }
                _ => {}
            }
            g.parts.push(Part {
                kind: 0,
                pts: vec![v],
            });
        }
        fam => {
            for k in 0..4 {
                g.bbox[k] = c.f("box")?;
            }
            let nparts = if fam == Family::Multipoint {
                1
            } else {
                let n = c.le("NumParts")?;
                if n < 0 {
                    return Err(format!("negative part count {}", n));
                }
                n as usize
            };
            let npts = c.le("NumPoints")?;
            if npts < 0 {
                return Err(format!("negative point count {}", npts));
            }
            let npts = npts as usize;
            // size consistency before allocating anything
            let mut base = 32 + 4 + 16 * npts;
            if fam != Family::Multipoint {
                base += 4 + 4 * nparts;
            }
            if fam == Family::Multipatch {
                base += 4 * nparts;
            }
            if ty.has_z() {
                base += 16 + 8 * npts;
            }
            let with_m = base + 16 + 8 * npts;
            let m_present = if ty.carries_m() && body == with_m {
                true
            } else if body == base && (ty.carries_m() || !ty.carries_m()) {
                false
            } else {
                return Err(format!(
                    "{}: content body {} bytes, expected {}{}",
                    ty.name(),
                    body,
                    base,
                    if ty.carries_m() {
                        format!(" or {}", with_m)
                    } else {
                        String::new()
                    }
                ));
            };
            g.m_present = m_present;
            let mut offs = Vec::with_capacity(nparts);
            if fam == Family::Multipoint {
                offs.push(0usize);
            } else {
                for i in 0..nparts {
                    let o = c.le("part offset")?;
                    if o < 0 || o as usize > npts {
                        return Err(format!("part offset {} = {} out of 0..={}", i, o, npts));
                    }
                    if i == 0 && o != 0 {
                        return Err(format!("first part offset is {}", o));
                    }
                    if let Some(prev) = offs.last() {
                        if (o as usize) < *prev {
                            return Err(format!("part offsets not ascending at {}", i));
                        }
                    }
                    offs.push(o as usize);
                }
            }
            let mut kinds = vec![0i32; nparts];
            if fam == Family::Multipatch {
                for k in kinds.iter_mut() {
                    let pk = c.le("patch kind")?;
                    if !(0..=5).contains(&pk) {
                        return Err(format!("patch kind {}", pk));
                    }
                    *k = pk;
                }
            }
            let mut pts = vec![[F(0); 4]; npts];
            for v in pts.iter_mut() {
                v[0] = c.f("x")?;
                v[1] = c.f("y")?;
            }
            if ty.has_z() {
                g.bbox[4] = c.f("zmin")?;
                g.bbox[5] = c.f("zmax")?;
                for v in pts.iter_mut() {
                    v[2] = c.f("z")?;
                }
            }
            if m_present {
                g.bbox[6] = c.f("mmin")?;
                g.bbox[7] = c.f("mmax")?;
                for v in pts.iter_mut() {
                    v[3] = c.f("m")?;
                }
            }
            if nparts == 0 && npts != 0 {
                return Err(format!("{} points but zero parts", npts));
            }
            for i in 0..nparts {
                let a = offs[i];
                let b = if i + 1 < nparts { offs[i + 1] } else { npts };
                g.parts.push(Part {
                    kind: kinds[i],
                    pts: pts[a..b].to_vec(),
                });
            }
        }
    }
    if c.p != end {
        return Err(format!(
            "record content: consumed {} of {} bytes",
            c.p - start,
            clen
        ));
    }
    Ok(g)
}

pub fn decode(bytes: &[u8], mode: Mode) -> Result<Decoded, String> {
    let h = decode_header(bytes)?;
    let ty = Ty::from_code(h.ty_code).ok_or_else(|| format!("header: type code {}", h.ty_code))?;
    if h.len_words < 50 {
        return Err(format!("header: length {} words", h.len_words));
    }
    let declared = h.len_words as usize * 2;
    match mode {
        Mode::Strict => {
            if declared != bytes.len() {
                return Err(format!(
                    "header: declared length {} bytes, real length {}",
                    declared,
                    bytes.len()
                ));
            }
        }
        Mode::Layout => {
            if declared > bytes.len() {
                return Err(format!(
                    "header: declared length {} exceeds real length {}",
                    declared,
                    bytes.len()
                ));
            }
        }
    }
    let mut c = Cur {
        b: &bytes[..declared],
        p: 100,
    };
    let mut recs = Vec::new();
    while c.p < declared {
        let offset = c.p;
        let number = c.be("record number")?;
        let clen_w = c.be("content length")?;
        if clen_w < 2 {
            return Err(format!("record at {}: content length {} words", offset, clen_w));
        }
        let clen = clen_w as usize * 2;
        if c.p + clen > declared {
            return Err(format!(
                "record at {}: content length {} bytes runs past the declared end",
                offset, clen
            ));
        }
        if mode == Mode::Strict && number != recs.len() as i32 + 1 {
            return Err(format!(
                "record at {}: number {} (expected {})",
                offset,
                number,
                recs.len() + 1
            ));
        }
        let tcode = c.le("record type")?;
        let rty = Ty::from_code(tcode)
            .ok_or_else(|| format!("record at {}: type code {}", offset, tcode))?;
        if rty != ty && rty != Ty::Null {
            return Err(format!(
                "record at {}: type {} in a {} file",
                offset,
                rty.name(),
                ty.name()
            ));
        }
        if mode == Mode::Strict && rty == Ty::Null && ty != Ty::Null {
            // the library's writer never emits null records into a typed file
            return Err(format!("record at {}: null record in a {} file", offset, ty.name()));
        }
        let geom = decode_content(&mut c, rty, clen)
            .map_err(|e| format!("record at {}: {}", offset, e))?;
        recs.push(DRec {
            number,
            offset,
            content_len: clen,
            geom,
        });
    }
    Ok(Decoded {
        ty,
        declared_len: declared,
        header_bbox: h.bbox,
        recs,
        trailing: bytes.len() - declared,
    })
}

#[derive(Clone, Debug)]
pub struct ShxDecoded {
    pub header: Vec<u8>,
    pub len_words: i32,
    pub entries: Vec<(i32, i32)>,
}

/// Independent parse of an index file: 100-byte header then (offset, length) big-endian pairs.
pub fn decode_shx(bytes: &[u8]) -> Result<ShxDecoded, String> {
    let h = decode_header(bytes)?;
    if (bytes.len() - 100) % 8 != 0 {
        return Err(format!("shx: {} bytes after the header", bytes.len() - 100));
    }
    if h.len_words as usize * 2 != bytes.len() {
        return Err(format!(
            "shx: declared {} words, real {} bytes",
            h.len_words,
            bytes.len()
        ));
    }
    let mut entries = Vec::new();
    let mut c = Cur { b: bytes, p: 100 };
    while c.p < bytes.len() {
        let o = c.be("offset")?;
        let l = c.be("length")?;
        entries.push((o, l));
    }
    Ok(ShxDecoded {
        header: bytes[..100].to_vec(),
        len_words: h.len_words,
        entries,
    })
}

/// Re-create the model (incl. layout choices) of a file decoded in Layout mode, for the
/// encode(decode(f)) == f self-test against third-party fixtures.
pub fn to_model(d: &Decoded, bytes: &[u8]) -> FileModel {
    FileModel {
        ty: d.ty,
        header_bbox: d.header_bbox,
        recs: d
            .recs
            .iter()
            .map(|r| Rec {
                number: r.number,
                geom: r.geom.clone(),
            })
            .collect(),
        trailing: bytes[d.declared_len..].to_vec(),
        order: vec![],
        fillers: vec![],
    }
}

/// Self-test of the codec against the fixtures under /repo/tests/data (files written by other
/// producers). Returns a description of the first disagreement.
pub fn selftest(dir: &std::path::Path) -> Result<usize, String> {
    let mut n = 0;
    let mut names: Vec<_> = std::fs::read_dir(dir)
        .map_err(|e| format!("{}: {}", dir.display(), e))?
        .filter_map(|e| e.ok())
        .map(|e| e.path())
        .collect();
    names.sort();
    for p in &names {
        if p.extension().map(|e| e == "shp").unwrap_or(false) {
            let bytes = std::fs::read(p).map_err(|e| e.to_string())?;
            let d = decode(&bytes, Mode::Layout).map_err(|e| format!("{}: {}", p.display(), e))?;
            let m = to_model(&d, &bytes);
            let e = encode(&m);
            if e.shp != bytes {
                return Err(format!("{}: encode(decode(f)) != f", p.display()));
            }
            let shx = p.with_extension("shx");
            if shx.exists() {
                let sb = std::fs::read(&shx).map_err(|e| e.to_string())?;
                // header box of the fixture shx equals that of the shp in all three fixtures
                if e.shx != sb {
                    return Err(format!("{}: encoder index output differs", shx.display()));
                }
                decode_shx(&sb).map_err(|e| format!("{}: {}", shx.display(), e))?;
            }
            let numbered_from_1 = d.recs.iter().enumerate().all(|(i, r)| r.number == i as i32 + 1);
            if numbered_from_1 && d.trailing == 0 {
                decode(&bytes, Mode::Strict).map_err(|e| format!("{} (strict): {}", p.display(), e))?;
            }
            n += 1;
        }
    }
    if n == 0 {
        return Err(format!("no .shp fixtures under {}", dir.display()));
    }
    Ok(n)
}

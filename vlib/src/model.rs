//! Geometry model used by every oracle. Plain data: f64 values are kept as bit patterns so that
//! -0/+0 and NaN payloads are compared exactly. Nothing in here touches the `shapefile` crate.

use serde::{Deserialize, Deserializer, Serialize, Serializer};
use std::fmt;

/// ESRI no-data threshold as the whitepaper (and the library constant) give it: -10^38 written -10e38.
pub const NO_DATA: f64 = -10e38;

/// One f64 kept as its bit pattern. Serialises as "0x<hex>(<decimal>)" for readable replay files.
#[derive(Clone, Copy, PartialEq, Eq, Hash, PartialOrd, Ord, Default)]
pub struct F(pub u64);

impl F {
    #[inline]
    pub fn of(v: f64) -> F {
        F(v.to_bits())
    }
    #[inline]
    pub fn v(self) -> f64 {
        f64::from_bits(self.0)
    }
    pub fn is_nan(self) -> bool {
        self.v().is_nan()
    }
}

impl fmt::Debug for F {
    fn fmt(&self, f: &mut fmt::Formatter) -> fmt::Result {
        write!(f, "{:?}", self.v())?;
        let v = self.v();
        if v.is_nan() || (v == 0.0 && self.0 != 0) {
            write!(f, "[{:#x}]", self.0)?;
        }
        Ok(())
    }
}

impl Serialize for F {
    fn serialize<S: Serializer>(&self, s: S) -> Result<S::Ok, S::Error> {
        s.serialize_str(&format!("{:#018x}({:?})", self.0, self.v()))
    }
}

impl<'de> Deserialize<'de> for F {
    fn deserialize<D: Deserializer<'de>>(d: D) -> Result<F, D::Error> {
        let s = String::deserialize(d)?;
        let hex = s.split('(').next().unwrap_or("").trim();
        let hex = hex.trim_start_matches("0x");
        u64::from_str_radix(hex, 16)
            .map(F)
            .map_err(|e| serde::de::Error::custom(format!("bad F '{}': {}", s, e)))
    }
}

/// Vertex: x, y, z, m. Dimensions a type does not carry are F(0).
pub type V = [F; 4];

pub fn v4(x: f64, y: f64, z: f64, m: f64) -> V {
    [F::of(x), F::of(y), F::of(z), F::of(m)]
}

#[derive(Clone, Copy, PartialEq, Eq, Hash, Debug, Serialize, Deserialize, PartialOrd, Ord)]
pub enum Ty {
    Null = 0,
    Point = 1,
    Polyline = 3,
    Polygon = 5,
    Multipoint = 8,
    PointZ = 11,
    PolylineZ = 13,
    PolygonZ = 15,
    MultipointZ = 18,
    PointM = 21,
    PolylineM = 23,
    PolygonM = 25,
    MultipointM = 28,
    Multipatch = 31,
}

pub const ALL14: [Ty; 14] = [
    Ty::Null,
    Ty::Point,
    Ty::Polyline,
    Ty::Polygon,
    Ty::Multipoint,
    Ty::PointZ,
    Ty::PolylineZ,
    Ty::PolygonZ,
    Ty::MultipointZ,
    Ty::PointM,
    Ty::PolylineM,
    Ty::PolygonM,
    Ty::MultipointM,
    Ty::Multipatch,
];

pub const ALL13: [Ty; 13] = [
    Ty::Point,
    Ty::Polyline,
    Ty::Polygon,
    Ty::Multipoint,
    Ty::PointZ,
    Ty::PolylineZ,
    Ty::PolygonZ,
    Ty::MultipointZ,
    Ty::PointM,
    Ty::PolylineM,
    Ty::PolygonM,
    Ty::MultipointM,
    Ty::Multipatch,
];

pub const VALID_CODES: [i32; 14] = [0, 1, 3, 5, 8, 11, 13, 15, 18, 21, 23, 25, 28, 31];

#[derive(Clone, Copy, PartialEq, Eq, Debug)]
pub enum Family {
    Null,
    Point,
    Multipoint,
    Polyline,
    Polygon,
    Multipatch,
}

impl Ty {
    pub fn code(self) -> i32 {
        self as i32
    }
    pub fn from_code(c: i32) -> Option<Ty> {
        ALL14.iter().copied().find(|t| t.code() == c)
    }
    /// ESRI table: Z types and MultiPatch.
    pub fn has_z(self) -> bool {
        matches!(
            self,
            Ty::PointZ | Ty::PolylineZ | Ty::PolygonZ | Ty::MultipointZ | Ty::Multipatch
        )
    }
    /// ESRI table as the property states it: the four M and four Z types.
    pub fn has_m(self) -> bool {
        matches!(
            self,
            Ty::PointZ
                | Ty::PolylineZ
                | Ty::PolygonZ
                | Ty::MultipointZ
                | Ty::PointM
                | Ty::PolylineM
                | Ty::PolygonM
                | Ty::MultipointM
        )
    }
    /// Does a vertex of this type carry a measure value in the library's point type / in the file?
    pub fn carries_m(self) -> bool {
        self.has_m() || self == Ty::Multipatch
    }
    pub fn family(self) -> Family {
        match self {
            Ty::Null => Family::Null,
            Ty::Point | Ty::PointM | Ty::PointZ => Family::Point,
            Ty::Multipoint | Ty::MultipointM | Ty::MultipointZ => Family::Multipoint,
            Ty::Polyline | Ty::PolylineM | Ty::PolylineZ => Family::Polyline,
            Ty::Polygon | Ty::PolygonM | Ty::PolygonZ => Family::Polygon,
            Ty::Multipatch => Family::Multipatch,
        }
    }
    pub fn is_multipart(self) -> bool {
        matches!(
            self.family(),
            Family::Polyline | Family::Polygon | Family::Multipatch
        )
    }
    pub fn name(self) -> &'static str {
        match self {
            Ty::Null => "NullShape",
            Ty::Point => "Point",
            Ty::Polyline => "Polyline",
            Ty::Polygon => "Polygon",
            Ty::Multipoint => "Multipoint",
            Ty::PointZ => "PointZ",
            Ty::PolylineZ => "PolylineZ",
            Ty::PolygonZ => "PolygonZ",
            Ty::MultipointZ => "MultipointZ",
            Ty::PointM => "PointM",
            Ty::PolylineM => "PolylineM",
            Ty::PolygonM => "PolygonM",
            Ty::MultipointM => "MultipointM",
            Ty::Multipatch => "Multipatch",
        }
    }
    pub fn index13(self) -> usize {
        ALL13.iter().position(|t| *t == self).expect("non-null")
    }
}

/// Part kind. For multipatch it is the patch code 0..=5; for polygons 0 = Outer, 1 = Inner
/// (the *declared* role on input, the role the accessor reports on output); otherwise 0.
pub const OUTER: i32 = 0;
pub const INNER: i32 = 1;

#[derive(Clone, PartialEq, Eq, Hash, Debug, Serialize, Deserialize)]
pub struct Part {
    pub kind: i32,
    pub pts: Vec<V>,
}

/// Box as the file stores it: xmin, ymin, xmax, ymax, zmin, zmax, mmin, mmax.
pub type BBox = [F; 8];

/// One shape. `parts`:
///  * point family: exactly one part with exactly one vertex;
///  * multipoint family: exactly one part (any number of vertices);
///  * polyline / polygon / multipatch: any number of parts.
/// `bbox` is only meaningful for multi-vertex families. `m_present` only matters for files
/// (is the optional M block / the PointZ measure stored).
#[derive(Clone, PartialEq, Eq, Hash, Debug, Serialize, Deserialize)]
pub struct Geom {
    pub ty: Ty,
    pub parts: Vec<Part>,
    pub bbox: BBox,
    pub m_present: bool,
}

impl Geom {
    pub fn null() -> Geom {
        Geom {
            ty: Ty::Null,
            parts: vec![],
            bbox: [F(0); 8],
            m_present: false,
        }
    }
    pub fn npoints(&self) -> usize {
        self.parts.iter().map(|p| p.pts.len()).sum()
    }
    pub fn all_pts(&self) -> impl Iterator<Item = &V> {
        self.parts.iter().flat_map(|p| p.pts.iter())
    }
    /// Zero the dimensions the type does not carry (canonical form for comparisons).
    pub fn canon(mut self) -> Geom {
        let ty = self.ty;
        for p in self.parts.iter_mut() {
            for v in p.pts.iter_mut() {
                if !ty.has_z() {
                    v[2] = F(0);
                }
                if !ty.carries_m() {
                    v[3] = F(0);
                }
            }
        }
        if !ty.has_z() {
            self.bbox[4] = F(0);
            self.bbox[5] = F(0);
        }
        if !ty.carries_m() {
            self.bbox[6] = F(0);
            self.bbox[7] = F(0);
        }
        if ty.family() == Family::Point || ty == Ty::Null {
            self.bbox = [F(0); 8];
        }
        self
    }
    pub fn short(&self) -> String {
        let lens: Vec<usize> = self.parts.iter().map(|p| p.pts.len()).collect();
        format!("{}{:?}", self.ty.name(), lens)
    }
}

/// The C01/C03 measure normalisation for multi-vertex shapes, written independently of the library:
/// NaN or anything at or below the threshold is reported as exactly NO_DATA.
pub fn norm_m(m: F) -> F {
    let v = m.v();
    if v.is_nan() || v <= NO_DATA {
        F::of(NO_DATA)
    } else {
        m
    }
}

/// Reference fold for a box: plain `<` / `>` over all vertices (non-NaN domain).
pub fn ref_bbox(ty: Ty, parts: &[Part]) -> Option<BBox> {
    let mut it = parts.iter().flat_map(|p| p.pts.iter());
    let first = it.next()?;
    let mut mn = [first[0].v(), first[1].v(), first[2].v(), first[3].v()];
    let mut mx = mn;
    for v in it {
        for d in 0..4 {
            let x = v[d].v();
            if x < mn[d] {
                mn[d] = x;
            }
            if x > mx[d] {
                mx[d] = x;
            }
        }
    }
    let mut b = [F(0); 8];
    b[0] = F::of(mn[0]);
    b[1] = F::of(mn[1]);
    b[2] = F::of(mx[0]);
    b[3] = F::of(mx[1]);
    if ty.has_z() {
        b[4] = F::of(mn[2]);
        b[5] = F::of(mx[2]);
    }
    if ty.carries_m() {
        b[6] = F::of(mn[3]);
        b[7] = F::of(mx[3]);
    }
    Some(b)
}

/// Exact signed "shoelace" sum  Σ (x1-x0)(y1+y0)  (in units of 2^-16) for rings whose coordinates are
/// dyadic rationals k·2^-8, provided the same sum evaluated in f64 edge by edge, in ring order — which
/// is how the library classifies a ring — is exact: every coordinate, every difference, every sum
/// y1+y0, every product and every partial sum is an integer below 2^53 units. `None` outside that
/// domain (there the floating-point classification has no exact meaning to test against).
/// Positive = clockwise (ESRI outer).
pub fn exact_area2(pts: &[V]) -> Option<i128> {
    // scaling every coordinate by a power of two scales every intermediate value of the f64 sum exactly (no underflow at
    // these magnitudes), so a ring on a finer grid close to the origin is decided on its scaled-up image; only the sign
    // and the zero-ness of the result are used by the callers
    [0i32, 16].iter().find_map(|sh| exact_area2_at(pts, *sh))
}

fn exact_area2_at(pts: &[V], shift: i32) -> Option<i128> {
    const LIM: i128 = 1i128 << 52;
    let k = 2f64.powi(shift);
    let mut q = Vec::with_capacity(pts.len());
    for p in pts {
        q.push((dyadic(F::of(p[0].v() * k))?, dyadic(F::of(p[1].v() * k))?));
    }
    let mut s: i128 = 0;
    for w in q.windows(2) {
        let dx = w[1].0 - w[0].0;
        let sy = w[1].1 + w[0].1;
        let t = dx * sy;
        // dx, sy are in units of 2^-8, t and s in units of 2^-16
        if dx.abs() >= LIM || sy.abs() >= LIM || t.abs() >= LIM {
            return None;
        }
        s += t;
        if s.abs() >= LIM {
            return None;
        }
    }
    Some(s)
}

/// v·2^8 as an integer if v is a multiple of 2^-8 with |v| ≤ 2^24.
pub fn dyadic(f: F) -> Option<i128> {
    let v = f.v();
    if !v.is_finite() || v.abs() > 16777216.0 {
        return None;
    }
    let s = v * 256.0;
    if s.fract() != 0.0 {
        return None;
    }
    Some(s as i128)
}

pub fn is_special(f: F) -> bool {
    let v = f.v();
    v.is_nan() || v.is_infinite() || (v == 0.0 && f.0 != 0) || (v != 0.0 && v.abs() < f64::MIN_POSITIVE) || v <= NO_DATA * 0.999 || v.abs() >= 1e300
}

impl Geom {
    /// Canonical form of a file-level record model: dimensions the type lacks are zero, and values the
    /// file does not store (measures and M range when the block is absent) are zero too.
    pub fn canon_file(self) -> Geom {
        let mut g = self.canon();
        if !g.m_present {
            for p in g.parts.iter_mut() {
                for v in p.pts.iter_mut() {
                    v[3] = F(0);
                }
            }
            g.bbox[6] = F(0);
            g.bbox[7] = F(0);
        }
        g
    }
}

//! Counting global allocator with a thread-local measurement window: peak live bytes requested
//! inside the window and the largest single request. Installed by the harness binaries with
//! `#[global_allocator] static A: vlib::alloc::Counting = vlib::alloc::Counting;`

use std::alloc::{GlobalAlloc, Layout, System};
use std::cell::Cell;

pub struct Counting;

#[derive(Clone, Copy, Debug, Default)]
pub struct Peak {
    /// maximum of (bytes allocated - bytes freed) inside the window
    pub peak: usize,
    /// largest single allocation request inside the window
    pub largest: usize,
    pub allocs: usize,
}

thread_local! {
    static ACTIVE: Cell<bool> = const { Cell::new(false) };
    static LIVE: Cell<isize> = const { Cell::new(0) };
    static PEAK: Cell<isize> = const { Cell::new(0) };
    static LARGEST: Cell<usize> = const { Cell::new(0) };
    static ALLOCS: Cell<usize> = const { Cell::new(0) };
}

#[inline]
fn on_alloc(size: usize) {
    // `try_with`: the allocator may be called while thread-locals are being torn down
    let _ = ACTIVE.try_with(|a| {
        if a.get() {
            let _ = LIVE.try_with(|l| {
                let v = l.get().saturating_add(size as isize);
                l.set(v);
                let _ = PEAK.try_with(|p| {
                    if v > p.get() {
                        p.set(v)
                    }
                });
            });
            let _ = LARGEST.try_with(|m| {
                if size > m.get() {
                    m.set(size)
                }
            });
            let _ = ALLOCS.try_with(|c| c.set(c.get() + 1));
        }
    });
}

#[inline]
fn on_dealloc(size: usize) {
    let _ = ACTIVE.try_with(|a| {
        if a.get() {
            let _ = LIVE.try_with(|l| l.set(l.get().saturating_sub(size as isize)));
        }
    });
}

unsafe impl GlobalAlloc for Counting {
    unsafe fn alloc(&self, layout: Layout) -> *mut u8 {
        on_alloc(layout.size());
        System.alloc(layout)
    }
    unsafe fn alloc_zeroed(&self, layout: Layout) -> *mut u8 {
        on_alloc(layout.size());
        System.alloc_zeroed(layout)
    }
    unsafe fn dealloc(&self, ptr: *mut u8, layout: Layout) {
        on_dealloc(layout.size());
        System.dealloc(ptr, layout)
    }
    unsafe fn realloc(&self, ptr: *mut u8, layout: Layout, new_size: usize) -> *mut u8 {
        // counted as "allocate the new block, then free the old one"
        on_alloc(new_size);
        on_dealloc(layout.size());
        System.realloc(ptr, layout, new_size)
    }
}

/// Measure one call. Windows do not nest.
pub fn window<R>(f: impl FnOnce() -> R) -> (R, Peak) {
    LIVE.with(|l| l.set(0));
    PEAK.with(|p| p.set(0));
    LARGEST.with(|m| m.set(0));
    ALLOCS.with(|c| c.set(0));
    ACTIVE.with(|a| a.set(true));
    struct Off;
    impl Drop for Off {
        fn drop(&mut self) {
            ACTIVE.with(|a| a.set(false));
        }
    }
    let off = Off;
    let r = f();
    drop(off);
    let p = Peak {
        peak: PEAK.with(|p| p.get()).max(0) as usize,
        largest: LARGEST.with(|m| m.get()),
        allocs: ALLOCS.with(|c| c.get()),
    };
    (r, p)
}

//! Thin generic helpers around the library's public reader / writer API.

use crate::io::{Dest, Src};
use crate::kinds::*;
use crate::model::*;
use serde::{Deserialize, Serialize};
use shapefile::{Error, Shape, ShapeReader, ShapeWriter};
use std::io::Cursor;

#[derive(Clone, Copy, PartialEq, Eq, Hash, Debug, Serialize, Deserialize)]
pub enum Finish {
    Drop,
    FinalizeDrop,
    /// all shapes handed to the consuming `write_shapes`
    WriteShapes,
    /// the first half (rounded up) through `write_shape`, the rest handed to the consuming `write_shapes`
    Mixed,
}

pub const FINISHES: [Finish; 4] = [Finish::Drop, Finish::FinalizeDrop, Finish::WriteShapes, Finish::Mixed];

/// number of shapes that go through `write_shape` before `write_shapes` takes the rest (Finish::Mixed)
pub fn mixed_split(n: usize) -> usize {
    (n + 1) / 2
}

pub fn err_str(e: &Error) -> String {
    format!("{:?}", e)
}

/// Write `shapes` with a ShapeWriter over logging destinations; returns the destination handles.
pub fn write_to_dests<K: Kind>(shapes: &[K], with_shx: bool, fin: Finish) -> Result<(Dest, Option<Dest>), String> {
    let shp = Dest::new();
    let shx = if with_shx { Some(Dest::new()) } else { None };
    {
        let mut w = match &shx {
            Some(x) => ShapeWriter::with_shx(shp.clone(), x.clone()),
            None => ShapeWriter::new(shp.clone()),
        };
        match fin {
            Finish::WriteShapes => {
                w.write_shapes(shapes.iter()).map_err(|e| format!("write_shapes: {}", err_str(&e)))?;
            }
            Finish::Mixed => {
                let k = mixed_split(shapes.len());
                for (i, s) in shapes[..k].iter().enumerate() {
                    w.write_shape(s).map_err(|e| format!("write_shape #{}: {}", i, err_str(&e)))?;
                }
                w.write_shapes(shapes[k..].iter()).map_err(|e| format!("write_shapes (after {} write_shape calls): {}", k, err_str(&e)))?;
            }
            _ => {
                for (i, s) in shapes.iter().enumerate() {
                    w.write_shape(s).map_err(|e| format!("write_shape #{}: {}", i, err_str(&e)))?;
                }
                if fin == Finish::FinalizeDrop {
                    w.finalize().map_err(|e| format!("finalize: {}", err_str(&e)))?;
                }
                drop(w);
            }
        }
    }
    Ok((shp, shx))
}

/// As `write_to_dests`, with `finalize()` also called after shape i whenever bit i (mod 32) of
/// `mid_fins` is set (ignored for the consuming `write_shapes` route).
pub fn write_bytes_fins<K: Kind>(shapes: &[K], with_shx: bool, fin: Finish, mid_fins: u32) -> Result<(Vec<u8>, Option<Vec<u8>>), String> {
    write_bytes_hist(shapes, with_shx, fin, mid_fins, 0)
}

/// A shape of a type other than K with coordinates far outside anything the generators produce; offered
/// to a writer that already holds K-shapes it must be rejected and leave no trace.
fn offer_foreign<K: Kind>(w: &mut ShapeWriter<Dest>) -> Result<(), Error> {
    use shapefile::{MultipointZ, PointZ, PolylineZ};
    let far = vec![PointZ::new(3e300, -3e300, 3e300, 3e300), PointZ::new(-3e300, 3e300, -3e300, -3e300)];
    if K::TY == Ty::PolylineZ {
        w.write_shape(&MultipointZ::new(far))
    } else {
        w.write_shape(&PolylineZ::new(far))
    }
}

/// As `write_bytes`, with `finalize()` also called after shape i whenever bit i (mod 32) of `mid_fins`
/// is set, a shape of another type offered (it must be rejected) before shape i (i >= 1) whenever
/// bit i (mod 32) of `rejects` is set, and `finalize()` called on the fresh writer when bit 0 of `rejects` is set.
pub fn write_bytes_hist<K: Kind>(shapes: &[K], with_shx: bool, fin: Finish, mid_fins: u32, rejects: u32) -> Result<(Vec<u8>, Option<Vec<u8>>), String> {
    if mid_fins == 0 && rejects == 0 {
        return write_bytes(shapes, with_shx, fin);
    }
    let shp = Dest::new();
    let shx = if with_shx { Some(Dest::new()) } else { None };
    {
        let mut w = match &shx {
            Some(x) => ShapeWriter::with_shx(shp.clone(), x.clone()),
            None => ShapeWriter::new(shp.clone()),
        };
        // bit 0 of `rejects`: finalize() is called on the fresh writer, before anything was written
        if rejects & 1 != 0 {
            w.finalize().map_err(|e| format!("finalize before the first write: {}", err_str(&e)))?;
        }
        let k = match fin {
            Finish::WriteShapes => 0,
            Finish::Mixed => mixed_split(shapes.len()),
            _ => shapes.len(),
        };
        for (i, s) in shapes[..k].iter().enumerate() {
            if i >= 1 && rejects & (1 << (i % 32)) != 0 {
                if offer_foreign::<K>(&mut w).is_ok() {
                    return Err(format!("a shape of another type was accepted before shape #{}", i));
                }
            }
            w.write_shape(s).map_err(|e| format!("write_shape #{}: {}", i, err_str(&e)))?;
            if mid_fins & (1 << (i % 32)) != 0 {
                w.finalize().map_err(|e| format!("finalize after #{}: {}", i, err_str(&e)))?;
            }
        }
        match fin {
            Finish::FinalizeDrop => w.finalize().map_err(|e| format!("finalize: {}", err_str(&e)))?,
            Finish::WriteShapes | Finish::Mixed => w.write_shapes(shapes[k..].iter()).map_err(|e| format!("write_shapes (after {} write_shape calls): {}", k, err_str(&e)))?,
            Finish::Drop => drop(w),
        }
    }
    Ok((shp.bytes(), shx.map(|x| x.bytes())))
}

/// Drive an already constructed writer (any destination type) through the history and drop it: `fin` selects the
/// route, `finalize()` is also called after shape i whenever bit i (mod 32) of `mid_fins` is set.
pub fn drive_writer<K: Kind, T: std::io::Write + std::io::Seek>(w: ShapeWriter<T>, shapes: &[K], fin: Finish, mid_fins: u32) -> Result<(), String> {
    drive_writer_ff(w, shapes, fin, mid_fins, false)
}

/// As `drive_writer`; with `fin_first`, finalize() is called on the fresh writer before anything else.
pub fn drive_writer_ff<K: Kind, T: std::io::Write + std::io::Seek>(mut w: ShapeWriter<T>, shapes: &[K], fin: Finish, mid_fins: u32, fin_first: bool) -> Result<(), String> {
    if fin_first {
        w.finalize().map_err(|e| format!("finalize before the first write: {}", err_str(&e)))?;
    }
    let k = match fin {
        Finish::WriteShapes => 0,
        Finish::Mixed => mixed_split(shapes.len()),
        _ => shapes.len(),
    };
    for (i, s) in shapes[..k].iter().enumerate() {
        w.write_shape(s).map_err(|e| format!("write_shape #{}: {}", i, err_str(&e)))?;
        if mid_fins & (1 << (i % 32)) != 0 {
            w.finalize().map_err(|e| format!("finalize after #{}: {}", i, err_str(&e)))?;
        }
    }
    match fin {
        Finish::FinalizeDrop => w.finalize().map_err(|e| format!("finalize: {}", err_str(&e)))?,
        Finish::WriteShapes | Finish::Mixed => w.write_shapes(shapes[k..].iter()).map_err(|e| format!("write_shapes (after {} write_shape calls): {}", k, err_str(&e)))?,
        Finish::Drop => drop(w),
    }
    Ok(())
}

pub fn write_bytes<K: Kind>(shapes: &[K], with_shx: bool, fin: Finish) -> Result<(Vec<u8>, Option<Vec<u8>>), String> {
    let (a, b) = write_to_dests(shapes, with_shx, fin)?;
    Ok((a.bytes(), b.map(|x| x.bytes())))
}

pub fn build_all<K: Kind>(geoms: &[Geom], ctor: Ctor) -> Vec<K> {
    geoms.iter().map(|g| build_any::<K>(g, ctor)).collect()
}

pub fn views<K: Kind>(shapes: &[K]) -> Vec<Geom> {
    shapes.iter().map(|s| s.view()).collect()
}

/// Every shape seen through the alternative accessors equals the shape seen through the main ones.
pub fn accessors_agree<K: Kind>(shapes: &[K]) -> Result<(), String> {
    for (i, s) in shapes.iter().enumerate() {
        let v = s.view();
        match s.alt_view() {
            Ok(a) => {
                if a != v {
                    return Err(format!("shape {} ({}): the indexed getters / into_inner / AsRef view differs from the parts()/rings()/patches() view: {}", i, v.short(), same_geom(&v, &a).err().unwrap_or_default()));
                }
            }
            Err(m) => return Err(format!("shape {} ({}): {}", i, v.short(), m)),
        }
    }
    Ok(())
}

pub type MemReader = ShapeReader<Cursor<Vec<u8>>>;

pub fn open_mem(shp: &[u8], shx: Option<&[u8]>) -> Result<MemReader, Error> {
    match shx {
        Some(x) => ShapeReader::with_shx(Cursor::new(shp.to_vec()), Cursor::new(x.to_vec())),
        None => ShapeReader::new(Cursor::new(shp.to_vec())),
    }
}

pub fn open_src(shp: Src, shx: Option<Src>) -> Result<ShapeReader<Src>, Error> {
    match shx {
        Some(x) => ShapeReader::with_shx(shp, x),
        None => ShapeReader::new(shp),
    }
}

/// Compare two views. `what` names the route for the message.
pub fn same_geom(a: &Geom, b: &Geom) -> Result<(), String> {
    if a == b {
        return Ok(());
    }
    if a.ty != b.ty {
        return Err(format!("type {:?} vs {:?}", a.ty, b.ty));
    }
    if a.parts.len() != b.parts.len() {
        return Err(format!("{} parts vs {}", a.parts.len(), b.parts.len()));
    }
    for (i, (p, q)) in a.parts.iter().zip(&b.parts).enumerate() {
        if p.kind != q.kind {
            return Err(format!("part {} kind {} vs {}", i, p.kind, q.kind));
        }
        if p.pts.len() != q.pts.len() {
            return Err(format!("part {} has {} vs {} vertices", i, p.pts.len(), q.pts.len()));
        }
        for (j, (u, v)) in p.pts.iter().zip(&q.pts).enumerate() {
            if u != v {
                return Err(format!("part {} vertex {}: {:?} vs {:?}", i, j, u, v));
            }
        }
    }
    if a.bbox != b.bbox {
        return Err(format!("bbox {:?} vs {:?}", a.bbox, b.bbox));
    }
    Err(format!("m_present {} vs {}", a.m_present, b.m_present))
}

/// What a *reader* must report for a shape that was handed to the writer with accessor view `w`
/// (C01): measures of multi-vertex shapes normalised, everything else bit-identical. Polygon ring
/// roles are returned separately because they are only asserted where the exact area is non-zero.
pub fn expected_after_read(w: &Geom) -> Geom {
    let mut e = w.clone();
    if e.ty.carries_m() && e.ty.family() != Family::Point {
        for p in e.parts.iter_mut() {
            for v in p.pts.iter_mut() {
                v[3] = norm_m(v[3]);
            }
        }
    }
    e
}

/// Compare a read-back view with the expectation, with the ring-role clause restricted to rings
/// whose exact signed area is computable and non-zero.
pub fn same_after_read(expect: &Geom, got: &Geom) -> Result<(), String> {
    if expect.ty.family() != Family::Polygon {
        return same_geom(expect, got);
    }
    if expect.parts.len() != got.parts.len() {
        return Err(format!("{} rings vs {}", expect.parts.len(), got.parts.len()));
    }
    let mut e2 = expect.clone();
    for (i, (p, q)) in expect.parts.iter().zip(&got.parts).enumerate() {
        match exact_area2(&p.pts) {
            Some(a) if a != 0 => {
                if p.kind != q.kind {
                    return Err(format!(
                        "ring {} (exact area sum {}) role {} came back as {}",
                        i, a, p.kind, q.kind
                    ));
                }
            }
            _ => e2.parts[i].kind = q.kind,
        }
    }
    same_geom(&e2, got)
}

pub fn shape_views(v: &[Shape]) -> Vec<Geom> {
    v.iter().map(view_shape).collect()
}

/// Drive an iterator with an item cap; returns (items, hit_cap).
pub fn drain_capped<T, I: Iterator<Item = T>>(it: I, cap: usize) -> (Vec<T>, bool) {
    let mut out = Vec::new();
    for x in it {
        if out.len() >= cap {
            return (out, true);
        }
        out.push(x);
    }
    (out, false)
}


/// Sequential reading through the Iterator adaptors a caller may use instead of a plain loop (`nth`, `skip`,
/// `step_by`, `count`, `last`): each must select the same items a plain loop would. `open` yields a fresh
/// reader; `expect[i]` is what item i must look like; `same` compares an expectation with a view.
pub fn adaptor_routes<T, F, C>(route: &str, open: F, expect: &[Geom], same: C) -> Result<(), (String, String)>
where
    T: std::io::Read + std::io::Seek,
    F: Fn() -> Result<ShapeReader<T>, Error>,
    C: Fn(&Geom, &Geom) -> Result<(), String>,
{
    let n = expect.len();
    let fail = |key: &str, msg: String| Err((key.to_string(), format!("route {}: {}", route, msg)));
    let op = |what: &str| open().map_err(|e| ("open-error".to_string(), format!("route {} ({}): {}", route, what, err_str(&e))));
    let check = |what: &str, i: usize, item: Option<Result<Shape, Error>>| -> Result<(), (String, String)> {
        match item {
            Some(Ok(s)) => {
                if i >= n {
                    return Err(("count".into(), format!("route {}: {} yields an item at position {} of {}", route, what, i, n)));
                }
                same(&expect[i], &view_shape(&s)).map_err(|m| ("shape-differs".to_string(), format!("route {}: {} item expected to be shape {}: {}", route, what, i, m)))
            }
            Some(Err(e)) => Err(("read-error".into(), format!("route {}: {} at position {}: {}", route, what, i, err_str(&e)))),
            None => {
                if i < n {
                    Err(("count".into(), format!("route {}: {} ends before shape {} of {}", route, what, i, n)))
                } else {
                    Ok(())
                }
            }
        }
    };
    // step_by(2)
    {
        let mut r = op("step_by")?;
        let mut it = r.iter_shapes().step_by(2);
        let mut i = 0;
        while i < n + 2 {
            let item = it.next();
            let none = item.is_none();
            check("step_by(2)", i, item)?;
            if none {
                break;
            }
            i += 2;
        }
    }
    // skip(k) then to the end
    {
        let k = n / 2;
        let mut r = op("skip")?;
        let mut it = r.iter_shapes().skip(k);
        for i in k..n + 1 {
            let item = it.next();
            check(&format!("skip({})", k), i, item)?;
        }
    }
    // nth twice on the same iterator, then the rest, then the end
    {
        let mut r = op("nth")?;
        let mut it = r.iter_shapes();
        let a = it.nth(1);
        check("nth(1)", 1, a)?;
        if n > 2 {
            let b = it.nth(0);
            check("nth(1) then nth(0)", 2, b)?;
            let c = it.nth(2);
            check("nth(1), nth(0), nth(2)", 5, c)?;
            let mut i = 6;
            loop {
                let item = it.next();
                let none = item.is_none();
                check("after three nth calls", i, item)?;
                if none || i > n + 1 {
                    break;
                }
                i += 1;
            }
            if it.next().is_some() {
                return fail("count", "an item is yielded after the iterator ended".into());
            }
        }
    }
    // two iterators in succession on one reader: the first takes k items and is dropped; the second continues with
    // item k (or starts over with item 0) and runs to the end
    if n >= 2 {
        let k = (n / 2).max(1);
        let mut r = op("two iterators")?;
        {
            let mut it = r.iter_shapes();
            for i in 0..k {
                let item = it.next();
                check("first of two iterators", i, item)?;
            }
        }
        let mut it = r.iter_shapes();
        let first = it.next();
        let start = match &first {
            Some(Ok(s)) if same(&expect[k], &view_shape(s)).is_ok() => k,
            _ => 0,
        };
        check(&format!("second of two iterators (the first took {} items)", k), start, first)?;
        for i in start + 1..n + 1 {
            let item = it.next();
            check(&format!("second of two iterators (the first took {} items)", k), i, item)?;
        }
    }
    // count and last
    {
        let mut r = op("count")?;
        let c = r.iter_shapes().count();
        if c != n {
            return fail("count", format!("iter_shapes().count() = {}, {} shapes", c, n));
        }
        let mut r = op("last")?;
        let l = r.iter_shapes().last();
        if n == 0 {
            if l.is_some() {
                return fail("count", "last() yields an item from an empty file".into());
            }
        } else {
            check("last()", n - 1, l)?;
        }
    }
    Ok(())
}


/// A .dbf with one numeric field `idx` and rows 0..n.
pub fn dbf_with_rows(n: usize) -> Vec<u8> {
    use shapefile::dbase;
    use std::convert::TryInto;
    let mut dbf = Cursor::new(Vec::new());
    {
        let mut tw = dbase::TableWriterBuilder::new().add_numeric_field("idx".try_into().unwrap(), 10, 0).build_with_dest(&mut dbf);
        for i in 0..n {
            let mut rec = dbase::Record::default();
            rec.insert("idx".to_string(), dbase::FieldValue::Numeric(Some(i as f64)));
            tw.write_record(&rec).expect("dbf row");
        }
    }
    dbf.into_inner()
}

//! Thin generic helpers around the library's public reader / writer API.

use crate::io::{Dest, Src};
use crate::kinds::*;
use crate::model::*;
use serde::{Deserialize, Serialize};
use shapefile::{Error, Shape, ShapeReader, ShapeWriter};
use std::io::Cursor;

#[derive(Clone, Copy, PartialEq, Eq, Hash, Debug, Serialize, Deserialize)]
pub enum Finish {
    Drop,
    FinalizeDrop,
    /// all shapes handed to the consuming `write_shapes`
    WriteShapes,
}

pub const FINISHES: [Finish; 3] = [Finish::Drop, Finish::FinalizeDrop, Finish::WriteShapes];

pub fn err_str(e: &Error) -> String {
    format!("{:?}", e)
}

/// Write `shapes` with a ShapeWriter over logging destinations; returns the destination handles.
pub fn write_to_dests<K: Kind>(shapes: &[K], with_shx: bool, fin: Finish) -> Result<(Dest, Option<Dest>), String> {
    let shp = Dest::new();
    let shx = if with_shx { Some(Dest::new()) } else { None };
    {
        let mut w = match &shx {
            Some(x) => ShapeWriter::with_shx(shp.clone(), x.clone()),
            None => ShapeWriter::new(shp.clone()),
        };
        match fin {
            Finish::WriteShapes => {
                w.write_shapes(shapes.iter()).map_err(|e| format!("write_shapes: {}", err_str(&e)))?;
            }
            _ => {
                for (i, s) in shapes.iter().enumerate() {
                    w.write_shape(s).map_err(|e| format!("write_shape #{}: {}", i, err_str(&e)))?;
                }
                if fin == Finish::FinalizeDrop {
                    w.finalize().map_err(|e| format!("finalize: {}", err_str(&e)))?;
                }
                drop(w);
            }
        }
    }
    Ok((shp, shx))
}

/// As `write_to_dests`, with `finalize()` also called after shape i whenever bit i (mod 32) of
/// `mid_fins` is set (ignored for the consuming `write_shapes` route).
pub fn write_bytes_fins<K: Kind>(shapes: &[K], with_shx: bool, fin: Finish, mid_fins: u32) -> Result<(Vec<u8>, Option<Vec<u8>>), String> {
    write_bytes_hist(shapes, with_shx, fin, mid_fins, 0)
}

/// A shape of a type other than K with coordinates far outside anything the generators produce; offered
/// to a writer that already holds K-shapes it must be rejected and leave no trace.
fn offer_foreign<K: Kind>(w: &mut ShapeWriter<Dest>) -> Result<(), Error> {
    use shapefile::{MultipointZ, PointZ, PolylineZ};
    let far = vec![PointZ::new(3e300, -3e300, 3e300, 3e300), PointZ::new(-3e300, 3e300, -3e300, -3e300)];
    if K::TY == Ty::PolylineZ {
        w.write_shape(&MultipointZ::new(far))
    } else {
        w.write_shape(&PolylineZ::new(far))
    }
}

/// As `write_bytes`, with `finalize()` also called after shape i whenever bit i (mod 32) of `mid_fins`
/// is set, and a shape of another type offered (it must be rejected) before shape i (i >= 1) whenever
/// bit i (mod 32) of `rejects` is set. Both are ignored for the consuming `write_shapes` route.
pub fn write_bytes_hist<K: Kind>(shapes: &[K], with_shx: bool, fin: Finish, mid_fins: u32, rejects: u32) -> Result<(Vec<u8>, Option<Vec<u8>>), String> {
    if (mid_fins == 0 && rejects == 0) || fin == Finish::WriteShapes {
        return write_bytes(shapes, with_shx, fin);
    }
    let shp = Dest::new();
    let shx = if with_shx { Some(Dest::new()) } else { None };
    {
        let mut w = match &shx {
            Some(x) => ShapeWriter::with_shx(shp.clone(), x.clone()),
            None => ShapeWriter::new(shp.clone()),
        };
        for (i, s) in shapes.iter().enumerate() {
            if i >= 1 && rejects & (1 << (i % 32)) != 0 {
                if offer_foreign::<K>(&mut w).is_ok() {
                    return Err(format!("a shape of another type was accepted before shape #{}", i));
                }
            }
            w.write_shape(s).map_err(|e| format!("write_shape #{}: {}", i, err_str(&e)))?;
            if mid_fins & (1 << (i % 32)) != 0 {
                w.finalize().map_err(|e| format!("finalize after #{}: {}", i, err_str(&e)))?;
            }
        }
        if fin == Finish::FinalizeDrop {
            w.finalize().map_err(|e| format!("finalize: {}", err_str(&e)))?;
        }
    }
    Ok((shp.bytes(), shx.map(|x| x.bytes())))
}

pub fn write_bytes<K: Kind>(shapes: &[K], with_shx: bool, fin: Finish) -> Result<(Vec<u8>, Option<Vec<u8>>), String> {
    let (a, b) = write_to_dests(shapes, with_shx, fin)?;
    Ok((a.bytes(), b.map(|x| x.bytes())))
}

pub fn build_all<K: Kind>(geoms: &[Geom], ctor: Ctor) -> Vec<K> {
    geoms.iter().map(|g| K::build(g, ctor)).collect()
}

pub fn views<K: Kind>(shapes: &[K]) -> Vec<Geom> {
    shapes.iter().map(|s| s.view()).collect()
}

pub type MemReader = ShapeReader<Cursor<Vec<u8>>>;

pub fn open_mem(shp: &[u8], shx: Option<&[u8]>) -> Result<MemReader, Error> {
    match shx {
        Some(x) => ShapeReader::with_shx(Cursor::new(shp.to_vec()), Cursor::new(x.to_vec())),
        None => ShapeReader::new(Cursor::new(shp.to_vec())),
    }
}

pub fn open_src(shp: Src, shx: Option<Src>) -> Result<ShapeReader<Src>, Error> {
    match shx {
        Some(x) => ShapeReader::with_shx(shp, x),
        None => ShapeReader::new(shp),
    }
}

/// Compare two views. `what` names the route for the message.
pub fn same_geom(a: &Geom, b: &Geom) -> Result<(), String> {
    if a == b {
        return Ok(());
    }
    if a.ty != b.ty {
        return Err(format!("type {:?} vs {:?}", a.ty, b.ty));
    }
    if a.parts.len() != b.parts.len() {
        return Err(format!("{} parts vs {}", a.parts.len(), b.parts.len()));
    }
    for (i, (p, q)) in a.parts.iter().zip(&b.parts).enumerate() {
        if p.kind != q.kind {
            return Err(format!("part {} kind {} vs {}", i, p.kind, q.kind));
        }
        if p.pts.len() != q.pts.len() {
            return Err(format!("part {} has {} vs {} vertices", i, p.pts.len(), q.pts.len()));
        }
        for (j, (u, v)) in p.pts.iter().zip(&q.pts).enumerate() {
            if u != v {
                return Err(format!("part {} vertex {}: {:?} vs {:?}", i, j, u, v));
            }
        }
    }
    if a.bbox != b.bbox {
        return Err(format!("bbox {:?} vs {:?}", a.bbox, b.bbox));
    }
    Err(format!("m_present {} vs {}", a.m_present, b.m_present))
}

/// What a *reader* must report for a shape that was handed to the writer with accessor view `w`
/// (C01): measures of multi-vertex shapes normalised, everything else bit-identical. Polygon ring
/// roles are returned separately because they are only asserted where the exact area is non-zero.
pub fn expected_after_read(w: &Geom) -> Geom {
    let mut e = w.clone();
    if e.ty.carries_m() && e.ty.family() != Family::Point {
        for p in e.parts.iter_mut() {
            for v in p.pts.iter_mut() {
                v[3] = norm_m(v[3]);
            }
        }
    }
    e
}

/// Compare a read-back view with the expectation, with the ring-role clause restricted to rings
/// whose exact signed area is computable and non-zero.
pub fn same_after_read(expect: &Geom, got: &Geom) -> Result<(), String> {
    if expect.ty.family() != Family::Polygon {
        return same_geom(expect, got);
    }
    if expect.parts.len() != got.parts.len() {
        return Err(format!("{} rings vs {}", expect.parts.len(), got.parts.len()));
    }
    let mut e2 = expect.clone();
    for (i, (p, q)) in expect.parts.iter().zip(&got.parts).enumerate() {
        match exact_area2(&p.pts) {
            Some(a) if a != 0 => {
                if p.kind != q.kind {
                    return Err(format!(
                        "ring {} (exact area sum {}) role {} came back as {}",
                        i, a, p.kind, q.kind
                    ));
                }
            }
            _ => e2.parts[i].kind = q.kind,
        }
    }
    same_geom(&e2, got)
}

pub fn shape_views(v: &[Shape]) -> Vec<Geom> {
    v.iter().map(view_shape).collect()
}

/// Drive an iterator with an item cap; returns (items, hit_cap).
pub fn drain_capped<T, I: Iterator<Item = T>>(it: I, cap: usize) -> (Vec<T>, bool) {
    let mut out = Vec::new();
    for x in it {
        if out.len() >= cap {
            return (out, true);
        }
        out.push(x);
    }
    (out, false)
}

//! Seeded multi-thread driver around proptest's TestRunner, bounded-exhaustive enumeration driver,
//! case classification, distinct hashing, evidence / replay writers, known-findings matcher.

use proptest::strategy::{BoxedStrategy, Strategy, ValueTree};
use proptest::test_runner::{Config, RngAlgorithm, RngSeed, TestCaseError, TestError, TestRng, TestRunner};
use serde::de::DeserializeOwned;
use serde::Serialize;
use serde_json::{json, Value};
use std::cell::RefCell;
use std::collections::hash_map::DefaultHasher;
use std::collections::{BTreeMap, HashSet};
use std::fmt::Debug;
use std::hash::{Hash, Hasher};
use std::panic::{catch_unwind, AssertUnwindSafe};
use std::path::{Path, PathBuf};
use std::time::Instant;

pub const VERIF_DIR: &str = "/verif";
pub const REPO_DIR: &str = "/repo";

#[derive(Clone, Copy, PartialEq, Eq, Debug)]
pub enum Tier {
    Quick,
    Thorough,
}

#[derive(Clone, Debug)]
pub struct Env {
    pub tier: Tier,
    pub seed: u64,
    pub workers: usize,
    /// multiplies every case count (VERIF_SCALE, default 1.0); used by sensitivity sweeps
    pub scale: f64,
}

impl Env {
    pub fn from_env(tier: Tier) -> Env {
        let seed = std::env::var("VERIF_SEED")
            .ok()
            .and_then(|s| s.trim().parse::<i64>().ok())
            .map(|v| v as u64)
            .unwrap_or(1);
        let workers = std::env::var("VERIF_WORKERS")
            .ok()
            .and_then(|s| s.parse().ok())
            .unwrap_or(16usize)
            .max(1);
        let scale = std::env::var("VERIF_SCALE")
            .ok()
            .and_then(|s| s.parse().ok())
            .unwrap_or(1.0f64);
        Env {
            tier,
            seed,
            workers,
            scale,
        }
    }
    pub fn n(&self, quick: u64, thorough: u64) -> u64 {
        let base = match self.tier {
            Tier::Quick => quick,
            Tier::Thorough => thorough,
        };
        ((base as f64 * self.scale) as u64).max(1)
    }
    pub fn pickn(&self, quick: usize, thorough: usize) -> usize {
        match self.tier {
            Tier::Quick => quick,
            Tier::Thorough => thorough,
        }
    }
    pub fn thorough(&self) -> bool {
        self.tier == Tier::Thorough
    }
}

/// An oracle failure: semantic key (oracle branch + input class, no line numbers) and a message.
#[derive(Clone, Debug)]
pub struct Fail {
    pub key: String,
    pub msg: String,
}

impl Fail {
    pub fn new(key: &str, msg: String) -> Fail {
        Fail {
            key: key.to_string(),
            msg,
        }
    }
}

#[macro_export]
macro_rules! fail {
    ($key:expr, $($arg:tt)*) => {
        return Err($crate::run::Fail::new($key, format!($($arg)*)))
    };
}

#[macro_export]
macro_rules! ensure {
    ($cond:expr, $key:expr, $($arg:tt)*) => {
        if !($cond) {
            return Err($crate::run::Fail::new($key, format!($($arg)*)));
        }
    };
}

/// Per-worker, per-sub-check statistics.
#[derive(Default)]
pub struct Ctx {
    pub hist: BTreeMap<String, u64>,
    nontrivial_flag: bool,
    pub extra_evals: u64,
    pub counting: bool,
}

impl Ctx {
    pub fn class(&mut self, label: &str) {
        if self.counting {
            *self.hist.entry(label.to_string()).or_insert(0) += 1;
        }
    }
    pub fn class_n(&mut self, label: &str, n: u64) {
        if self.counting {
            *self.hist.entry(label.to_string()).or_insert(0) += n;
        }
    }
    /// Mark the case being checked as non-trivial by the property's stated rule.
    pub fn nontrivial(&mut self) {
        self.nontrivial_flag = true;
    }
    /// Count inner evaluations (e.g. crash images derived from one generated workload).
    pub fn evals(&mut self, n: u64) {
        if self.counting {
            self.extra_evals += n;
        }
    }
}

pub trait Prop: 'static {
    type Case: Serialize + DeserializeOwned + Debug + Clone + Hash + Send + 'static;
    fn name() -> &'static str;
    /// How cases are generated and what makes one non-trivial.
    fn rule() -> &'static str;
    fn check(case: &Self::Case, ctx: &mut Ctx) -> Result<(), Fail>;
}

pub trait RandomProp: Prop {
    fn strategy(env: &Env) -> BoxedStrategy<Self::Case>;
    /// total number of cases over all workers
    fn cases(env: &Env) -> u64;
    /// shrink budget; lower it for sub-checks whose single evaluation is expensive
    fn max_shrink_iters() -> u32 {
        4_000
    }
}

pub trait EnumProp: Prop {
    /// The complete finite space for this tier (must be deterministic).
    fn enumerate(env: &Env) -> Box<dyn Iterator<Item = Self::Case>>;
}

#[derive(Clone, Debug)]
pub struct Violation {
    pub key: String,
    pub msg: String,
    pub case: Value,
    pub worker: usize,
}

pub struct SubReport {
    pub name: String,
    pub rule: String,
    pub evaluations: u64,
    pub inner_evaluations: u64,
    pub nontrivial: HashSet<u64>,
    pub nontrivial_capped: bool,
    pub hist: BTreeMap<String, u64>,
    pub samples: Vec<Value>,
    pub exhaustive: bool,
    pub violation: Option<Violation>,
    /// known-finding key -> (hits, first message)
    pub known: BTreeMap<String, (u64, String)>,
}

thread_local! {
    static LAST_PANIC: RefCell<Option<String>> = const { RefCell::new(None) };
    static IN_GUARD: std::cell::Cell<u32> = const { std::cell::Cell::new(0) };
}

pub fn install_panic_hook() {
    std::panic::set_hook(Box::new(|info| {
        let loc = info
            .location()
            .map(|l| format!("{}:{}", l.file(), l.line()))
            .unwrap_or_default();
        let msg = if let Some(s) = info.payload().downcast_ref::<&str>() {
            s.to_string()
        } else if let Some(s) = info.payload().downcast_ref::<String>() {
            s.clone()
        } else {
            "<non-string panic>".to_string()
        };
        LAST_PANIC.with(|p| *p.borrow_mut() = Some(format!("{} at {}", msg, loc)));
    }));
}

/// For fuzz targets: install the recording hook on first use, keep libFuzzer's abort-on-panic behaviour
/// for panics that escape `guard` (the hook chains to the previous one when not inside a guard).
pub fn install_panic_hook_once() {
    static ONCE: std::sync::Once = std::sync::Once::new();
    ONCE.call_once(|| {
        let prev = std::panic::take_hook();
        std::panic::set_hook(Box::new(move |info| {
            if IN_GUARD.with(|g| g.get()) > 0 {
                let loc = info.location().map(|l| format!("{}:{}", l.file(), l.line())).unwrap_or_default();
                let msg = if let Some(s) = info.payload().downcast_ref::<&str>() {
                    s.to_string()
                } else if let Some(s) = info.payload().downcast_ref::<String>() {
                    s.clone()
                } else {
                    "<non-string panic>".to_string()
                };
                LAST_PANIC.with(|p| *p.borrow_mut() = Some(format!("{} at {}", msg, loc)));
            } else {
                prev(info);
            }
        }));
    });
}

pub fn take_panic() -> String {
    LAST_PANIC
        .with(|p| p.borrow_mut().take())
        .unwrap_or_else(|| "<panic>".to_string())
}

/// Run a closure, turning a panic into `Err(message at file:line)`.
pub fn guard<R>(f: impl FnOnce() -> R) -> Result<R, String> {
    IN_GUARD.with(|g| g.set(g.get() + 1));
    let r = catch_unwind(AssertUnwindSafe(f));
    IN_GUARD.with(|g| g.set(g.get() - 1));
    match r {
        Ok(r) => Ok(r),
        Err(_) => Err(take_panic()),
    }
}

/// Strip the line number from a "msg at file:line" panic description (keys must not depend on lines).
pub fn panic_key(p: &str) -> String {
    let base = p.split(" at ").next().unwrap_or(p);
    let mut s: String = base.chars().take(60).collect();
    s = s.replace(|c: char| c.is_ascii_digit(), "#");
    format!("panic/{}", s)
}

fn checked<P: Prop>(case: &P::Case, ctx: &mut Ctx) -> Result<(), Fail> {
    match catch_unwind(AssertUnwindSafe(|| P::check(case, ctx))) {
        Ok(r) => r,
        Err(_) => {
            let p = take_panic();
            Err(Fail {
                key: panic_key(&p),
                msg: format!("panic: {}", p),
            })
        }
    }
}

fn hash_case<C: Hash>(c: &C) -> u64 {
    let mut h = DefaultHasher::new();
    c.hash(&mut h);
    h.finish()
}

const NT_CAP: usize = 3_000_000;
const SAMPLE_CAP: usize = 4;

fn render_sample<C: Serialize + Debug>(c: &C) -> Value {
    let v = serde_json::to_value(c).unwrap_or(Value::Null);
    let s = v.to_string();
    if s.len() > 1500 {
        let mut cut = 1500;
        while !s.is_char_boundary(cut) {
            cut -= 1;
        }
        Value::String(format!("{}… ({} chars)", &s[..cut], s.len()))
    } else {
        v
    }
}

struct WorkerOut {
    evaluations: u64,
    ctx: Ctx,
    nontrivial: HashSet<u64>,
    capped: bool,
    samples: Vec<Value>,
    sampled: u32,
    violation: Option<Violation>,
    known: BTreeMap<String, (u64, String)>,
}

/// Book-keeping shared by the random and the enumerative drivers: run one case, classify the outcome.
struct Acc<'a> {
    out: WorkerOut,
    known: &'a Known,
    prop: &'a str,
    inflight: bool,
}

impl<'a> Acc<'a> {
    fn new(known: &'a Known, prop: &'a str) -> Acc<'a> {
        Acc {
            out: WorkerOut {
                evaluations: 0,
                ctx: Ctx {
                    counting: true,
                    ..Default::default()
                },
                nontrivial: HashSet::new(),
                capped: false,
                samples: vec![],
                sampled: 0,
                violation: None,
                known: BTreeMap::new(),
            },
            known,
            prop,
            inflight: inflight::dir().is_some(),
        }
    }
    /// Returns Err(fail) for a real (unlisted) failure.
    fn one<P: Prop>(&mut self, case: &P::Case) -> Result<(), Fail> {
        let counting = self.out.ctx.counting;
        self.out.ctx.nontrivial_flag = false;
        if self.inflight {
            if let Ok(js) = serde_json::to_string(case) {
                inflight::record(self.prop, P::name(), &js);
            }
        }
        let r = checked::<P>(case, &mut self.out.ctx);
        if counting {
            self.out.evaluations += 1;
        }
        match r {
            Ok(()) => {
                if counting && self.out.ctx.nontrivial_flag {
                    if self.out.nontrivial.len() < NT_CAP {
                        if self.out.nontrivial.insert(hash_case(case)) && self.out.sampled < 48 {
                            // keep the shortest few of the first non-trivial cases as samples
                            self.out.sampled += 1;
                            self.out.samples.push(render_sample(case));
                            self.out.samples.sort_by_key(|v| v.to_string().len());
                            self.out.samples.truncate(SAMPLE_CAP);
                        }
                    } else {
                        self.out.capped = true;
                    }
                }
                Ok(())
            }
            Err(f) => {
                if let Some(what) = self.known.open(self.prop, &f.key) {
                    if counting {
                        let e = self
                            .out
                            .known
                            .entry(f.key.clone())
                            .or_insert((0, format!("{} [{}]", what, f.msg)));
                        e.0 += 1;
                    }
                    Ok(())
                } else {
                    Err(f)
                }
            }
        }
    }
}

fn merge(name: &str, rule: &str, exhaustive: bool, outs: Vec<WorkerOut>) -> SubReport {
    let mut r = SubReport {
        name: name.to_string(),
        rule: rule.to_string(),
        evaluations: 0,
        inner_evaluations: 0,
        nontrivial: HashSet::new(),
        nontrivial_capped: false,
        hist: BTreeMap::new(),
        samples: vec![],
        exhaustive,
        violation: None,
        known: BTreeMap::new(),
    };
    for (w, o) in outs.into_iter().enumerate() {
        r.evaluations += o.evaluations;
        r.inner_evaluations += o.ctx.extra_evals;
        for (k, v) in o.ctx.hist {
            *r.hist.entry(k).or_insert(0) += v;
        }
        for h in o.nontrivial {
            if r.nontrivial.len() < NT_CAP {
                r.nontrivial.insert(h);
            } else {
                r.nontrivial_capped = true;
            }
        }
        r.nontrivial_capped |= o.capped;
        r.samples.extend(o.samples);
        r.samples.sort_by_key(|v| v.to_string().len());
        r.samples.truncate(SAMPLE_CAP);
        for (k, (n, m)) in o.known {
            let e = r.known.entry(k).or_insert((0, m));
            e.0 += n;
        }
        if r.violation.is_none() {
            if let Some(mut v) = o.violation {
                v.worker = w;
                r.violation = Some(v);
            }
        }
    }
    r
}

fn mix(seed: u64, worker: usize, salt: &str) -> [u8; 32] {
    let mut out = [0u8; 32];
    let mut h = DefaultHasher::new();
    seed.hash(&mut h);
    (worker as u64).hash(&mut h);
    salt.hash(&mut h);
    for i in 0..4 {
        (i as u64).hash(&mut h);
        out[i * 8..i * 8 + 8].copy_from_slice(&h.finish().to_le_bytes());
    }
    out
}

pub fn run_random<P: RandomProp>(prop_id: &str, env: &Env, known: &Known) -> SubReport {
    let total = P::cases(env);
    let nw = env.workers.min(total.max(1) as usize).max(1);
    let per = ((total + nw as u64 - 1) / nw as u64).max(1);
    let outs: Vec<WorkerOut> = std::thread::scope(|s| {
        let hs: Vec<_> = (0..nw)
            .map(|w| {
                let env = env.clone();
                s.spawn(move || {
                    let strat = P::strategy(&env);
                    let cfg = Config {
                        cases: per as u32,
                        failure_persistence: None,
                        max_shrink_iters: P::max_shrink_iters(),
                        // a wall-clock cap on shrinking only (never on the verdict): expensive cases must not turn a
                        // detected failure into a run that takes hours to report it
                        // only the minimisation of a failure is bounded by wall clock, never the verdict
                        max_shrink_time: std::env::var("VERIF_SHRINK_MS").ok().and_then(|v| v.parse().ok()).unwrap_or(20_000),
                        max_global_rejects: 1 << 20,
                        rng_algorithm: RngAlgorithm::ChaCha,
                        ..Config::default()
                    };
                    let rng = TestRng::from_seed(RngAlgorithm::ChaCha, &mix(env.seed, w, P::name()));
                    let _ = RngSeed::Random; // (seed handled explicitly above)
                    let mut runner = TestRunner::new_with_rng(cfg, rng);
                    let acc = RefCell::new(Acc::new(known, prop_id));
                    // proptest re-runs the closure while shrinking: stop counting at the first failure.
                    let res = runner.run(&strat, |case| {
                        let mut acc = acc.borrow_mut();
                        match acc.one::<P>(&case) {
                            Ok(()) => Ok(()),
                            Err(f) => {
                                acc.out.ctx.counting = false;
                                Err(TestCaseError::fail(format!("{}\u{1}{}", f.key, f.msg)))
                            }
                        }
                    });
                    let mut acc = acc.into_inner();
                    if let Err(e) = res {
                        match e {
                            TestError::Fail(reason, case) => {
                                let r = reason.message().to_string();
                                let (key, msg) = match r.split_once('\u{1}') {
                                    Some((k, m)) => (k.to_string(), m.to_string()),
                                    None => ("unknown".to_string(), r),
                                };
                                acc.out.violation = Some(Violation {
                                    key,
                                    msg,
                                    case: serde_json::to_value(&case).unwrap_or(Value::Null),
                                    worker: w,
                                });
                            }
                            TestError::Abort(reason) => {
                                acc.out.violation = Some(Violation {
                                    key: "harness/abort".into(),
                                    msg: format!("proptest aborted: {}", reason.message()),
                                    case: Value::Null,
                                    worker: w,
                                });
                            }
                        }
                    }
                    acc.out
                })
            })
            .collect();
        hs.into_iter().map(|h| h.join().expect("worker thread")).collect()
    });
    merge(P::name(), P::rule(), false, outs)
}

pub fn run_enum<P: EnumProp>(prop_id: &str, env: &Env, known: &Known) -> SubReport {
    let nw = env.workers.max(1);
    let outs: Vec<WorkerOut> = std::thread::scope(|s| {
        let hs: Vec<_> = (0..nw)
            .map(|w| {
                let env = env.clone();
                s.spawn(move || {
                    let mut acc = Acc::new(known, prop_id);
                    for case in P::enumerate(&env).skip(w).step_by(nw) {
                        if let Err(f) = acc.one::<P>(&case) {
                            acc.out.violation = Some(Violation {
                                key: f.key,
                                msg: f.msg,
                                case: serde_json::to_value(&case).unwrap_or(Value::Null),
                                worker: w,
                            });
                            break;
                        }
                    }
                    acc.out
                })
            })
            .collect();
        hs.into_iter().map(|h| h.join().expect("worker thread")).collect()
    });
    merge(P::name(), P::rule(), true, outs)
}

/// Generate one value from a strategy with a fixed seed (for deterministic fixtures inside enumerations).
pub fn sample_strategy<T: Debug>(s: &BoxedStrategy<T>, seed: u64, salt: &str) -> T {
    let rng = TestRng::from_seed(RngAlgorithm::ChaCha, &mix(seed, 0, salt));
    let mut runner = TestRunner::new_with_rng(Config::default(), rng);
    s.new_tree(&mut runner).expect("strategy").current()
}

pub fn replay_case<P: Prop>(case: &Value) -> Result<(), Fail> {
    let c: P::Case = serde_json::from_value(case.clone())
        .map_err(|e| Fail::new("harness/replay-parse", format!("cannot parse case: {}", e)))?;
    let mut ctx = Ctx::default();
    checked::<P>(&c, &mut ctx)
}

// --------------------------------------------------------------------------------------------
// known findings

#[derive(Clone, Debug, Default)]
pub struct Known {
    /// (property, key, what) with status open
    pub open: Vec<(String, String, String)>,
}

impl Known {
    pub fn load() -> Known {
        let p = Path::new(VERIF_DIR).join("known_findings.json");
        let mut k = Known::default();
        if let Ok(s) = std::fs::read_to_string(&p) {
            if let Ok(v) = serde_json::from_str::<Value>(&s) {
                if let Some(a) = v.get("findings").and_then(|x| x.as_array()) {
                    for e in a {
                        if e.get("status").and_then(|x| x.as_str()) == Some("open") {
                            k.open.push((
                                e.get("property").and_then(|x| x.as_str()).unwrap_or("").to_string(),
                                e.get("key").and_then(|x| x.as_str()).unwrap_or("").to_string(),
                                e.get("what").and_then(|x| x.as_str()).unwrap_or("").to_string(),
                            ));
                        }
                    }
                }
            }
        }
        k
    }
    pub fn none() -> Known {
        Known::default()
    }
    pub fn open(&self, prop: &str, key: &str) -> Option<&str> {
        self.open
            .iter()
            .find(|(p, k, _)| p == prop && k == key)
            .map(|(_, _, w)| w.as_str())
    }
}

// --------------------------------------------------------------------------------------------
// report

pub struct Report {
    pub id: String,
    pub level: String,
    pub env: Env,
    pub subs: Vec<SubReport>,
    pub assumptions: Vec<String>,
    pub start: Instant,
    pub regress_replayed: u64,
    pub regress_failures: Vec<(PathBuf, Fail)>,
    pub infra_error: Option<String>,
}

impl Report {
    pub fn new(id: &str, level: &str, env: &Env) -> Report {
        Report {
            id: id.to_string(),
            level: level.to_string(),
            env: env.clone(),
            subs: vec![],
            assumptions: vec![],
            start: Instant::now(),
            regress_replayed: 0,
            regress_failures: vec![],
            infra_error: None,
        }
    }
    pub fn add(&mut self, s: SubReport) {
        eprintln!(
            "[{}] sub {:<28} evals {:>9} (+{} inner) nontrivial {:>8} {}{}",
            self.id,
            s.name,
            s.evaluations,
            s.inner_evaluations,
            s.nontrivial.len(),
            if s.exhaustive { "exhaustive " } else { "" },
            if s.violation.is_some() { "VIOLATION" } else { "ok" }
        );
        self.subs.push(s);
    }
    pub fn assume(&mut self, s: &str) {
        self.assumptions.push(s.to_string());
    }

    /// Writes evidence, prints KNOWN-FINDING / VIOLATION lines, returns the process exit code.
    pub fn finish(self) -> i32 {
        let wall = self.start.elapsed().as_secs_f64();
        let mut evaluations = 0u64;
        let mut inner = 0u64;
        let mut distinct = 0u64;
        let mut samples = vec![];
        let mut hist = serde_json::Map::new();
        let mut rules = vec![];
        let mut subs_json = vec![];
        let mut violations = 0;
        let mut harness_faults = 0u64;
        let mut known_lines: BTreeMap<String, (u64, String)> = BTreeMap::new();
        let mut exhaustive_all = !self.subs.is_empty();
        let mut any_exhaustive = false;
        let _ = std::fs::create_dir_all(Path::new(VERIF_DIR).join("replays"));
        for s in &self.subs {
            evaluations += s.evaluations;
            inner += s.inner_evaluations;
            distinct += s.nontrivial.len() as u64;
            exhaustive_all &= s.exhaustive;
            any_exhaustive |= s.exhaustive;
            for smp in s.samples.iter().take(2) {
                samples.push(json!({"sub": s.name, "case": smp}));
            }
            let mut h = serde_json::Map::new();
            for (k, v) in &s.hist {
                h.insert(k.clone(), json!(v));
            }
            hist.insert(s.name.clone(), Value::Object(h));
            rules.push(format!("[{}] {}", s.name, s.rule));
            subs_json.push(json!({
                "name": s.name,
                "evaluations": s.evaluations,
                "inner_evaluations": s.inner_evaluations,
                "distinct_nontrivial": s.nontrivial.len(),
                "distinct_nontrivial_is_lower_bound": s.nontrivial_capped,
                "exhaustive": s.exhaustive,
                "violation": s.violation.as_ref().map(|v| json!({"key": v.key, "msg": v.msg})),
            }));
            for (k, (n, m)) in &s.known {
                let e = known_lines.entry(k.clone()).or_insert((0, m.clone()));
                e.0 += n;
            }
            if let Some(v) = s.violation.as_ref().filter(|v| v.key.starts_with("harness/")) {
                // a fault of the machinery itself (generator gave up, ...) is never a violation of the property
                eprintln!("INCONCLUSIVE property={} sub={} :: {} {}", self.id, s.name, v.key, truncate(&v.msg, 300));
                harness_faults += 1;
            } else if let Some(v) = &s.violation {
                violations += 1;
                let path = Path::new(VERIF_DIR).join("replays").join(format!(
                    "{}-{}-seed{}.json",
                    self.id, s.name, self.env.seed
                ));
                let body = json!({
                    "property": self.id,
                    "sub": s.name,
                    "seed": self.env.seed,
                    "key": v.key,
                    "message": v.msg,
                    "case": v.case,
                });
                let _ = std::fs::write(&path, serde_json::to_string_pretty(&body).unwrap());
                println!("VIOLATION property={} replay={}", self.id, path.display());
                println!("  sub={} key={} :: {}", s.name, v.key, truncate(&v.msg, 600));
            }
        }
        for (p, f) in &self.regress_failures {
            violations += 1;
            println!("VIOLATION property={} replay={}", self.id, p.display());
            println!("  regression replay failed: key={} :: {}", f.key, truncate(&f.msg, 600));
        }
        for (k, (n, m)) in &known_lines {
            println!("KNOWN-FINDING: property={} key={} hits={} {}", self.id, k, n, truncate(m, 400));
        }
        if samples.is_empty() {
            samples.push(json!("no non-trivial case was generated"));
        }
        let ev = json!({
            "property_id": self.id,
            "tier": match self.env.tier { Tier::Quick => "quick", Tier::Thorough => "thorough" },
            "seed": self.env.seed,
            "level": self.level,
            "coverage": {
                "evaluations": evaluations + inner,
                "generated_cases": evaluations,
                "derived_inner_evaluations": inner,
                "distinct_nontrivial": distinct,
                "rule": rules.join(" || "),
                "samples": samples,
                "exhaustive": exhaustive_all,
                "some_subchecks_exhaustive": any_exhaustive,
                "class_histogram": Value::Object(hist),
                "subchecks": subs_json,
                "regression_replays": self.regress_replayed,
                "known_findings_hit": known_lines.iter().map(|(k,(n,_))| json!({"key":k,"hits":n})).collect::<Vec<_>>(),
            },
            "assumptions": self.assumptions,
            "wall_s": (wall * 1000.0).round() / 1000.0,
            "violations": violations,
        });
        let evdir = Path::new(VERIF_DIR).join("evidence");
        let _ = std::fs::create_dir_all(&evdir);
        let evp = evdir.join(format!("{}.json", self.id));
        if let Err(e) = std::fs::write(&evp, serde_json::to_string_pretty(&ev).unwrap() + "\n") {
            eprintln!("cannot write evidence {}: {}", evp.display(), e);
            return 2;
        }
        if let Some(e) = &self.infra_error {
            eprintln!("INCONCLUSIVE property={} :: {}", self.id, e);
            if violations == 0 {
                return 2;
            }
        }
        eprintln!(
            "[{}] {} evaluations ({} generated), {} distinct non-trivial, {} violation(s), {:.1}s",
            self.id,
            evaluations + inner,
            evaluations,
            distinct,
            violations,
            wall
        );
        if violations > 0 {
            1
        } else if harness_faults > 0 {
            2
        } else {
            0
        }
    }
}

pub fn truncate(s: &str, n: usize) -> String {
    if s.len() <= n {
        s.to_string()
    } else {
        let mut cut = n;
        while !s.is_char_boundary(cut) {
            cut -= 1;
        }
        format!("{}…", &s[..cut])
    }
}

/// Object-safe wrapper so that a property's sub-checks can be listed, run and replayed by name.
pub trait SubCheck {
    fn name(&self) -> &'static str;
    fn run(&self, prop_id: &str, env: &Env, known: &Known) -> SubReport;
    fn replay(&self, case: &Value) -> Result<(), Fail>;
}

pub struct R<P: RandomProp>(pub std::marker::PhantomData<P>);
pub struct E<P: EnumProp>(pub std::marker::PhantomData<P>);

impl<P: RandomProp> SubCheck for R<P> {
    fn name(&self) -> &'static str {
        P::name()
    }
    fn run(&self, prop_id: &str, env: &Env, known: &Known) -> SubReport {
        run_random::<P>(prop_id, env, known)
    }
    fn replay(&self, case: &Value) -> Result<(), Fail> {
        replay_case::<P>(case)
    }
}

impl<P: EnumProp> SubCheck for E<P> {
    fn name(&self) -> &'static str {
        P::name()
    }
    fn run(&self, prop_id: &str, env: &Env, known: &Known) -> SubReport {
        run_enum::<P>(prop_id, env, known)
    }
    fn replay(&self, case: &Value) -> Result<(), Fail> {
        replay_case::<P>(case)
    }
}

pub fn random<P: RandomProp>() -> Box<dyn SubCheck> {
    Box::new(R::<P>(std::marker::PhantomData))
}
pub fn enumerated<P: EnumProp>() -> Box<dyn SubCheck> {
    Box::new(E::<P>(std::marker::PhantomData))
}

/// Standard flow for one property: replay regress/<id>-*.json, run all sub-checks, finish.
pub fn run_property(id: &str, level: &str, env: &Env, subs: Vec<Box<dyn SubCheck>>, assumptions: &[&str]) -> i32 {
    let known = Known::load();
    let mut rep = Report::new(id, level, env);
    for a in assumptions {
        rep.assume(a);
    }
    // seconds-long replay tier: minimal reproductions of every defect found so far
    let rdir = Path::new(VERIF_DIR).join("regress");
    let mut files: Vec<PathBuf> = std::fs::read_dir(&rdir)
        .map(|d| d.filter_map(|e| e.ok()).map(|e| e.path()).collect())
        .unwrap_or_default();
    files.sort();
    for f in files {
        let fname = f.file_name().and_then(|s| s.to_str()).unwrap_or("").to_string();
        if !fname.starts_with(&format!("{}-", id)) || !fname.ends_with(".json") {
            continue;
        }
        match replay_file(&f, &subs, &known, id) {
            Ok(()) => rep.regress_replayed += 1,
            Err(fl) => rep.regress_failures.push((f.clone(), fl)),
        }
    }
    for s in &subs {
        let r = s.run(id, env, &known);
        rep.add(r);
    }
    rep.finish()
}

pub fn replay_file(path: &Path, subs: &[Box<dyn SubCheck>], known: &Known, id: &str) -> Result<(), Fail> {
    let s = std::fs::read_to_string(path)
        .map_err(|e| Fail::new("harness/replay-read", format!("{}: {}", path.display(), e)))?;
    let v: Value = serde_json::from_str(&s)
        .map_err(|e| Fail::new("harness/replay-parse", format!("{}: {}", path.display(), e)))?;
    let sub = v.get("sub").and_then(|x| x.as_str()).unwrap_or("");
    let case = v.get("case").cloned().unwrap_or(Value::Null);
    for sc in subs {
        if sc.name() == sub {
            return match sc.replay(&case) {
                Ok(()) => Ok(()),
                Err(f) => {
                    if known.open(id, &f.key).is_some() {
                        println!("KNOWN-FINDING: property={} key={} (replay) {}", id, f.key, truncate(&f.msg, 300));
                        Ok(())
                    } else {
                        Err(f)
                    }
                }
            };
        }
    }
    Err(Fail::new(
        "harness/replay-unknown-sub",
        format!("{}: no sub-check named '{}'", path.display(), sub),
    ))
}

/// `--replay <file>` entry point: exit code 0 (held) / 1 (violation reproduced).
pub fn replay_main(id: &str, path: &Path, subs: Vec<Box<dyn SubCheck>>) -> i32 {
    let known = Known::load();
    match replay_file(path, &subs, &known, id) {
        Ok(()) => {
            println!("replay {}: property held", path.display());
            0
        }
        Err(f) => {
            if f.key.starts_with("harness/") {
                eprintln!("replay problem: {}", f.msg);
                return 2;
            }
            println!("VIOLATION property={} replay={}", id, path.display());
            println!("  key={} :: {}", f.key, truncate(&f.msg, 1000));
            1
        }
    }
}

// --------------------------------------------------------------------------------------------
// abort- and hang-proofing: in-flight case files + parent supervisor

pub mod inflight {
    use std::cell::RefCell;
    use std::fs::File;
    use std::os::unix::fs::FileExt;
    use std::path::PathBuf;
    use std::sync::atomic::{AtomicBool, Ordering};

    static ENABLED: AtomicBool = AtomicBool::new(false);

    thread_local! {
        static FILE: RefCell<Option<File>> = const { RefCell::new(None) };
    }

    pub fn dir() -> Option<PathBuf> {
        std::env::var("VERIF_INFLIGHT_DIR").ok().map(PathBuf::from)
    }

    pub fn enable_from_env() {
        if dir().is_some() {
            ENABLED.store(true, Ordering::Relaxed);
        }
    }

    /// Persist the case about to be executed (one small file per thread, overwritten in place).
    pub fn record(property: &str, sub: &str, case_json: &str) {
        if !ENABLED.load(Ordering::Relaxed) {
            return;
        }
        FILE.with(|f| {
            let mut f = f.borrow_mut();
            if f.is_none() {
                if let Some(d) = dir() {
                    let id: String = format!("{:?}", std::thread::current().id()).chars().filter(|c| c.is_ascii_digit()).collect();
                    *f = File::create(d.join(format!("t{}.json", id))).ok();
                }
            }
            if let Some(file) = f.as_ref() {
                let body = format!("{{\"property\":\"{}\",\"sub\":\"{}\",\"case\":{}}}", property, sub, case_json);
                let _ = file.write_all_at(body.as_bytes(), 0);
                let _ = file.set_len(body.len() as u64);
            }
        });
    }
}

/// Parent side: run this very binary as a child with the same arguments; turn a child killed by a
/// signal (abort on allocation failure, stack overflow, OOM kill) into a VIOLATION with the in-flight
/// case as replay file, and a child that makes no progress into exit 2 (inconclusive).
pub fn supervise(id: &str, args: &[String], hang_secs: u64) -> i32 {
    use std::os::unix::process::ExitStatusExt;
    use std::process::Command;
    use std::time::{Duration, SystemTime};
    let exe = std::env::current_exe().expect("current_exe");
    let dir = Path::new(VERIF_DIR).join("target").join("inflight").join(format!("{}", std::process::id()));
    let _ = std::fs::remove_dir_all(&dir);
    std::fs::create_dir_all(&dir).expect("inflight dir");
    let mut child = Command::new(&exe)
        .args(args)
        .env("VERIF_CHILD", "1")
        .env("VERIF_INFLIGHT_DIR", &dir)
        .spawn()
        .expect("spawn child");
    let started = SystemTime::now();
    let status = loop {
        match child.try_wait() {
            Ok(Some(st)) => break st,
            Ok(None) => {}
            Err(e) => {
                eprintln!("INCONCLUSIVE: waiting for the worker process failed: {}", e);
                return 2;
            }
        }
        std::thread::sleep(Duration::from_millis(100));
        let mut latest = started;
        if let Ok(rd) = std::fs::read_dir(&dir) {
            for e in rd.flatten() {
                if let Ok(m) = e.metadata().and_then(|m| m.modified()) {
                    if m > latest {
                        latest = m;
                    }
                }
            }
        }
        if latest.elapsed().map(|d| d.as_secs() > hang_secs).unwrap_or(false) {
            let _ = child.kill();
            let _ = child.wait();
            let keep = Path::new(VERIF_DIR).join("replays").join(format!("{}-watchdog", id));
            let _ = std::fs::create_dir_all(&keep);
            if let Ok(rd) = std::fs::read_dir(&dir) {
                for e in rd.flatten() {
                    let _ = std::fs::copy(e.path(), keep.join(e.file_name()));
                }
            }
            let _ = std::fs::remove_dir_all(&dir);
            eprintln!(
                "INCONCLUSIVE property={}: no progress for {} s, worker killed; in-flight cases kept under {}",
                id,
                hang_secs,
                keep.display()
            );
            return 2;
        }
    };
    if let Some(code) = status.code() {
        let _ = std::fs::remove_dir_all(&dir);
        return code;
    }
    let sig = status.signal().unwrap_or(0);
    eprintln!("[{}] worker process died on signal {}; identifying the in-flight case", id, sig);
    let _ = std::fs::create_dir_all(Path::new(VERIF_DIR).join("replays"));
    let mut files: Vec<PathBuf> = std::fs::read_dir(&dir).map(|d| d.flatten().map(|e| e.path()).collect()).unwrap_or_default();
    files.sort();
    let mut culprits = Vec::new();
    let mut all = Vec::new();
    for (k, f) in files.iter().enumerate() {
        let dst = Path::new(VERIF_DIR).join("replays").join(format!("{}-abort-{}.json", id, k));
        if std::fs::copy(f, &dst).is_err() {
            continue;
        }
        all.push(dst.clone());
        let st = Command::new(&exe)
            .arg(id)
            .arg("--replay")
            .arg(&dst)
            .env("VERIF_CHILD", "1")
            .stdout(std::process::Stdio::null())
            .stderr(std::process::Stdio::null())
            .status();
        match st {
            Ok(s) if s.code().is_none() || s.code() == Some(1) => culprits.push(dst),
            _ => {
                let _ = std::fs::remove_file(&dst);
            }
        }
    }
    let _ = std::fs::remove_dir_all(&dir);
    if culprits.is_empty() {
        eprintln!(
            "INCONCLUSIVE property={}: worker died on signal {} but no in-flight case reproduces it ({} candidates)",
            id,
            sig,
            all.len()
        );
        return 2;
    }
    for c in &culprits {
        println!("VIOLATION property={} replay={}", id, c.display());
        println!("  the worker process was killed by signal {} (abort / stack overflow / allocation failure) while executing this case", sig);
    }
    // minimal evidence: the worker died before it could write its own
    let tier = if args.iter().any(|a| a == "thorough") { "thorough" } else { "quick" };
    let ev = json!({
        "property_id": id, "tier": tier,
        "seed": std::env::var("VERIF_SEED").ok().and_then(|s| s.parse::<i64>().ok()).unwrap_or(1),
        "level": "exploration",
        "coverage": {"evaluations": culprits.len().max(1), "distinct_nontrivial": culprits.len().max(2),
            "rule": "worker process died on a signal; the in-flight cases that reproduce the death are listed as samples",
            "samples": culprits.iter().map(|c| c.display().to_string()).collect::<Vec<_>>()},
        "wall_s": started.elapsed().map(|d| d.as_secs_f64()).unwrap_or(0.0),
        "violations": culprits.len(),
    });
    let _ = std::fs::write(Path::new(VERIF_DIR).join("evidence").join(format!("{}.json", id)), serde_json::to_string_pretty(&ev).unwrap());
    1
}

/// Parent side of `--replay` for supervised properties.
pub fn supervise_replay(id: &str, path: &Path) -> i32 {
    let exe = std::env::current_exe().expect("current_exe");
    let st = std::process::Command::new(&exe)
        .arg(id)
        .arg("--replay")
        .arg(path)
        .env("VERIF_CHILD", "1")
        .status();
    match st {
        Ok(s) => match s.code() {
            Some(c) => c,
            None => {
                println!("VIOLATION property={} replay={}", id, path.display());
                println!("  the process replaying this case was killed by a signal (abort / stack overflow / allocation failure)");
                1
            }
        },
        Err(e) => {
            eprintln!("cannot spawn replay process: {}", e);
            2
        }
    }
}

pub mod alloc;
pub mod gen;
pub mod io;
pub mod kinds;
pub mod libops;
pub mod model;
pub mod refcodec;
pub mod run;

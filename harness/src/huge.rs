//! Files with several hundred thousand records (C01 / C02 / C04 legs): anything the writer or reader does
//! "every N records" or "once a counter passes N" (N up to 2^18) happens in such a file. The records cycle
//! through a small pool of generated shapes so that a case stays a few hundred bytes of JSON.

use proptest::prelude::*;
use serde::{Deserialize, Serialize};
use shapefile::{Shape, ShapeReader, ShapeWriter};
use std::io::Cursor;
use vlib::gen;
use vlib::kinds::*;
use vlib::libops::*;
use vlib::model::*;
use vlib::refcodec::{self, Mode};
use vlib::run::*;
use vlib::{ensure, fail};

#[derive(Serialize, Deserialize, Debug, Clone, Hash)]
pub struct HugeCase {
    pub ty: Ty,
    pub n: usize,
    /// finalize() after every `fin_every`-th shape (0 = never)
    pub fin_every: usize,
    /// 0 = drop, 1 = finalize then drop, 2 = all through write_shapes, 3 = half write_shape, half write_shapes
    pub route: u8,
    pub pool: Vec<Geom>,
}

pub fn huge_case(env: &Env) -> BoxedStrategy<HugeCase> {
    // counts just past 10^5, 2^17 and 2^18 (and 2^20 in the thorough tier)
    let ns: Vec<usize> = if env.thorough() {
        vec![100_003, 131_075, 200_001, 262_147, 1_048_579]
    } else {
        vec![100_003, 131_075, 262_147]
    };
    let tys = [Ty::Point, Ty::PointM, Ty::PointZ, Ty::Multipoint, Ty::Polyline, Ty::MultipointZ, Ty::Polygon];
    (0usize..tys.len(), 0usize..ns.len(), prop_oneof![3 => Just(0usize), 1 => 40_000usize..70_000], 0u8..4, gen::profile_mix())
        .prop_flat_map(move |(t, ni, fin_every, route, prof)| {
            let ty = tys[t];
            let n = ns[ni];
            let cfg = gen::GenCfg::new(prof, true, 1, 2);
            proptest::collection::vec(gen::geom(ty, cfg), 1..6).prop_map(move |pool| HugeCase { ty, n, fin_every, route, pool })
        })
        .boxed()
}

#[derive(Clone, Copy, PartialEq, Eq)]
pub enum Aspect {
    RoundTrip,
    WellFormed,
    Index,
}

fn run_k<K: Kind>(c: &HugeCase, aspect: Aspect) -> Result<(), Fail>
where
    shapefile::Error: From<<K as TryFrom<Shape>>::Error>,
{
    let pool: Vec<K> = build_all(&c.pool, Ctor::Plain);
    let m = pool.len();
    let n = c.n;
    let mut shp = Cursor::new(Vec::<u8>::new());
    let mut shx = Cursor::new(Vec::<u8>::new());
    {
        let mut w = ShapeWriter::with_shx(&mut shp, &mut shx);
        let k = match c.route {
            2 => 0,
            3 => (n + 1) / 2,
            _ => n,
        };
        for i in 0..k {
            w.write_shape(&pool[i % m]).map_err(|e| Fail::new("write-error", format!("write_shape #{}: {}", i, err_str(&e))))?;
            if c.fin_every > 0 && i % c.fin_every == c.fin_every - 1 {
                w.finalize().map_err(|e| Fail::new("write-error", format!("finalize after #{}: {}", i, err_str(&e))))?;
            }
        }
        match c.route {
            1 => w.finalize().map_err(|e| Fail::new("write-error", format!("finalize: {}", err_str(&e))))?,
            2 | 3 => w.write_shapes((k..n).map(|i| &pool[i % m])).map_err(|e| Fail::new("write-error", format!("write_shapes: {}", err_str(&e))))?,
            _ => drop(w),
        }
    }
    let (shp, shx) = (shp.into_inner(), shx.into_inner());
    let written: Vec<Geom> = pool.iter().map(|s| crate::c02::file_view(&s.view())).collect();
    match aspect {
        Aspect::WellFormed | Aspect::Index => {
            let d = match refcodec::decode(&shp, Mode::Strict) {
                Ok(d) => d,
                Err(e) => fail!("malformed", "strict decoder rejects the written .shp ({} shapes of {}): {}", n, c.ty.name(), e),
            };
            ensure!(d.ty == c.ty, "header-type", "header type {:?} for shapes of {:?}", d.ty, c.ty);
            ensure!(d.recs.len() == n, "count", "decoder found {} records, {} shapes were written", d.recs.len(), n);
            if aspect == Aspect::WellFormed {
                for (i, r) in d.recs.iter().enumerate() {
                    ensure!(r.number == i as i32 + 1, "record-number", "record {} carries number {}", i, r.number);
                    ensure!(r.geom == written[i % m], "decode-differs", "record {} of {} decodes to {} but {} was written", i, n, r.geom.short(), written[i % m].short());
                }
                return Ok(());
            }
            let x = refcodec::decode_shx(&shx).map_err(|e| Fail::new("shx-malformed", e))?;
            ensure!(x.len_words as usize == 50 + 4 * n, "shx-length", ".shx length field {} words for {} shapes", x.len_words, n);
            ensure!(shx.len() == 100 + 8 * n, "shx-length", ".shx is {} bytes for {} shapes", shx.len(), n);
            ensure!(x.header[..24] == shp[..24] && x.header[28..100] == shp[28..100], "shx-header", ".shx header differs from the .shp header outside the length field");
            for (i, (e, r)) in x.entries.iter().zip(&d.recs).enumerate() {
                ensure!(
                    e.0 as usize * 2 == r.offset && e.1 as usize * 2 == r.content_len,
                    "shx-entry",
                    "entry {} of {} = (offset {} words, length {} words); record {} starts at byte {} with {} content bytes",
                    i,
                    n,
                    e.0,
                    e.1,
                    i,
                    r.offset,
                    r.content_len
                );
            }
            // the reader with the index: count, random access at positions spread over the file, size hint
            let mut r = ShapeReader::with_shx(Cursor::new(shp), Cursor::new(shx)).map_err(|e| Fail::new("open-error", err_str(&e)))?;
            ensure!(r.shape_count().ok() == Some(n), "shape-count", "shape_count {:?} for {} shapes", r.shape_count().ok(), n);
            let mut probes: Vec<usize> = vec![0, 1, n / 2, n - 2, n - 1, 65_535, 65_536, 65_537, 99_999, 100_000, 100_001, 131_071, 131_072];
            probes.extend((0..40).map(|j| (j * 7919 + c.pool.len() * 104_729) % n));
            for i in probes.into_iter().filter(|i| *i < n) {
                match r.read_nth_shape(i) {
                    Some(Ok(s)) => {
                        let e = expected_after_read(&pool[i % m].view());
                        if let Err(msg) = same_after_read(&e, &view_shape(&s)) {
                            fail!("nth-differs", "read_nth_shape({}) of {}: {}", i, n, msg);
                        }
                    }
                    Some(Err(e)) => fail!("read-error", "read_nth_shape({}) of {}: {}", i, n, err_str(&e)),
                    None => fail!("count", "read_nth_shape({}) is None, {} shapes were written", i, n),
                }
            }
            ensure!(r.read_nth_shape(n).is_none(), "count", "read_nth_shape({}) yields something for {} shapes", n, n);
            let it = r.iter_shapes();
            ensure!(it.size_hint() == (n, Some(n)), "size-hint", "size_hint {:?} on a fresh iterator over {} shapes", it.size_hint(), n);
            Ok(())
        }
        Aspect::RoundTrip => {
            let expect: Vec<Geom> = pool.iter().map(|s| expected_after_read(&s.view())).collect();
            for with in [true, false] {
                let mut r = open_mem(&shp, if with { Some(&shx[..]) } else { None }).map_err(|e| Fail::new("open-error", err_str(&e)))?;
                let mut i = 0usize;
                for item in r.iter_shapes_as::<K>() {
                    match item {
                        Ok(s) => {
                            ensure!(i < n, "count", "more than {} shapes read back (index: {})", n, with);
                            if let Err(msg) = same_after_read(&expect[i % m], &s.view()) {
                                fail!("shape-differs", "shape {} of {} (index: {}): {}", i, n, with, msg);
                            }
                        }
                        Err(e) => fail!("read-error", "item {} of {} (index: {}): {}", i, n, with, err_str(&e)),
                    }
                    i += 1;
                }
                ensure!(i == n, "count", "{} shapes read back, {} written (index: {})", i, n, with);
            }
            Ok(())
        }
    }
}

struct Run<'a>(&'a HugeCase, Aspect);
impl KindFn for Run<'_> {
    type Out = Result<(), Fail>;
    fn call<K: Kind>(self) -> Self::Out
    where
        shapefile::Error: From<<K as TryFrom<Shape>>::Error>,
    {
        run_k::<K>(self.0, self.1)
    }
}

macro_rules! huge_prop {
    ($name:ident, $label:expr, $aspect:expr, $what:expr) => {
        pub struct $name;
        impl Prop for $name {
            type Case = HugeCase;
            fn name() -> &'static str {
                $label
            }
            fn rule() -> &'static str {
                concat!(
                    "proptest: ONE file of 100003 / 131075 / 262147 (thorough: also 200001, 1048579) records of a small type cycling through a pool \
                     of 1-5 generated shapes, written through write_shape / finalize+drop / write_shapes / half-and-half, optionally with a \
                     finalize every 40000-70000 shapes; ",
                    $what,
                    ". Non-trivial: every case"
                )
            }
            fn check(c: &HugeCase, ctx: &mut Ctx) -> Result<(), Fail> {
                ctx.nontrivial();
                ctx.class(if c.n > 262_144 { "records>2^18" } else if c.n > 131_072 { "records>2^17" } else { "records>10^5" });
                dispatch(c.ty, Run(c, $aspect))
            }
        }
        impl RandomProp for $name {
            fn strategy(env: &Env) -> BoxedStrategy<HugeCase> {
                huge_case(env)
            }
            fn cases(env: &Env) -> u64 {
                env.n(16, 96)
            }
            fn max_shrink_iters() -> u32 {
                40
            }
        }
    };
}

huge_prop!(HugeRoundTrip, "roundtrip-huge", Aspect::RoundTrip, "every shape read back (with and without index, typed iterator) equals the shape written at that position");
huge_prop!(HugeWellFormed, "wellformed-huge", Aspect::WellFormed, "the strict independent decoder accepts the .shp, record numbers are 1..n and every record decodes to the shape written at that position");
huge_prop!(HugeIndex, "index-huge", Aspect::Index, "every .shx entry addresses its record, length fields and headers agree, random access at ~50 positions spread over the file (incl. around 65536, 100000, 131072), shape_count, size_hint");

//! C19 — shape type codes form the ESRI table, for every 32-bit value (exhaustive enumeration).

use serde_json::{json, Value};
use shapefile::header::Header;
use shapefile::{Error, ReadableShape, Shape, ShapeReader, ShapeType};
use std::collections::{BTreeMap, HashSet};
use std::io::Cursor;
use vlib::kinds::*;
use vlib::model::*;
use vlib::refcodec;
use vlib::run::*;

pub struct CodeTable;

fn table_display(t: Ty) -> &'static str {
    t.name()
}

/// `from`/`as` round trip + predicates for one code.
fn check_from(c: i32) -> Result<(), Fail> {
    let got = ShapeType::from(c);
    match (Ty::from_code(c), got) {
        (None, None) => Ok(()),
        (None, Some(t)) => Err(Fail::new("invalid-code-accepted", format!("ShapeType::from({}) = Some({:?})", c, t))),
        (Some(t), None) => Err(Fail::new("valid-code-rejected", format!("ShapeType::from({}) = None, table says {}", c, t.name()))),
        (Some(t), Some(st)) => {
            if st as i32 != c {
                return Err(Fail::new("code-not-preserved", format!("ShapeType::from({}) as i32 = {}", c, st as i32)));
            }
            if st.has_z() != t.has_z() {
                return Err(Fail::new("has-z", format!("{}.has_z() = {}", t.name(), st.has_z())));
            }
            if st.has_m() != t.has_m() {
                return Err(Fail::new("has-m", format!("{}.has_m() = {}", t.name(), st.has_m())));
            }
            if t != Ty::Null && st.is_multipart() != t.is_multipart() {
                return Err(Fail::new("is-multipart", format!("{}.is_multipart() = {}", t.name(), st.is_multipart())));
            }
            let d = format!("{}", st);
            if d != table_display(t) {
                return Err(Fail::new("display", format!("code {} displays as '{}', table says '{}'", c, d, table_display(t))));
            }
            Ok(())
        }
    }
}

fn minimal_geom(t: Ty) -> Geom {
    let pts = match t.family() {
        Family::Null => vec![],
        Family::Point | Family::Multipoint => vec![v4(1.0, 2.0, 3.0, 4.0)],
        _ => vec![v4(1.0, 2.0, 3.0, 4.0), v4(2.0, 1.0, 0.0, 5.0), v4(1.0, 2.0, 3.0, 4.0)],
    };
    let g = Geom {
        ty: t,
        parts: if t == Ty::Null { vec![] } else { vec![Part { kind: 2, pts }] },
        bbox: [F::of(1.0), F::of(1.0), F::of(2.0), F::of(2.0), F::of(0.0), F::of(3.0), F::of(4.0), F::of(5.0)],
        m_present: true,
    };
    let mut g = g.canon();
    if t.family() != Family::Multipatch {
        for p in g.parts.iter_mut() {
            p.kind = 0;
        }
    }
    g
}

/// Header carrying code c through `Header::read_from`.
fn check_header(hdr: &mut [u8; 100], c: i32) -> Result<(), Fail> {
    hdr[32..36].copy_from_slice(&c.to_le_bytes());
    let mut cur = Cursor::new(&hdr[..]);
    match (Ty::from_code(c), Header::read_from(&mut cur)) {
        (Some(t), Ok(h)) => {
            if h.shape_type as i32 != c {
                return Err(Fail::new("header-type", format!("header code {} ({}) read as {:?}", c, t.name(), h.shape_type)));
            }
            Ok(())
        }
        (Some(t), Err(e)) => Err(Fail::new("valid-header-rejected", format!("header with code {} ({}) rejected: {:?}", c, t.name(), e))),
        (None, Err(Error::InvalidShapeType(x))) if x == c => Ok(()),
        (None, Err(e)) => Err(Fail::new("wrong-error", format!("header with code {}: error {:?}, expected InvalidShapeType({})", c, e, c))),
        (None, Ok(h)) => Err(Fail::new("invalid-header-accepted", format!("header with invalid code {} accepted as {:?}", c, h.shape_type))),
    }
}

/// The verdict on a header's type code does not depend on the other header fields (version, length, box).
fn check_header_variants(c: i32) -> Result<(), Fail> {
    for (ver, len) in [(1000i32, 50i32), (1000i32.swap_bytes(), 50), (0, 0), (-1, i32::MAX), (1001, 1 << 24), (0x03e8_0000, -50)] {
        let mut hdr: [u8; 100] = refcodec::header_bytes(len, 1, &[F::of(1.5); 8]).try_into().unwrap();
        hdr[28..32].copy_from_slice(&ver.to_le_bytes());
        if let Err(f) = check_header(&mut hdr, c) {
            return Err(Fail::new(&f.key, format!("(header version field {:#x}, length field {}) {}", ver, len, f.msg)));
        }
    }
    Ok(())
}

/// Record content carrying code c through `Shape::read_from`.
fn check_record(contents: &BTreeMap<i32, Vec<u8>>, scratch: &mut Vec<u8>, c: i32) -> Result<(), Fail> {
    let (bytes, len): (&[u8], i32) = match contents.get(&c) {
        Some(b) => (&b[..], b.len() as i32),
        None => {
            scratch[0..4].copy_from_slice(&c.to_le_bytes());
            (&scratch[..], scratch.len() as i32)
        }
    };
    let mut cur = Cursor::new(bytes);
    match (Ty::from_code(c), Shape::read_from(&mut cur, len)) {
        (Some(t), Ok(s)) => {
            if variant_ty(&s) != t || s.shapetype() as i32 != c {
                return Err(Fail::new(
                    "record-type",
                    format!("record with code {} ({}) read as variant {:?} reporting {:?}", c, t.name(), variant_ty(&s), s.shapetype()),
                ));
            }
            Ok(())
        }
        (Some(t), Err(e)) => Err(Fail::new("valid-record-rejected", format!("record with code {} ({}) rejected: {:?}", c, t.name(), e))),
        (None, Err(Error::InvalidShapeType(x))) if x == c => Ok(()),
        (None, Err(e)) => Err(Fail::new("wrong-error", format!("record with code {}: error {:?}, expected InvalidShapeType({})", c, e, c))),
        (None, Ok(s)) => Err(Fail::new("invalid-record-accepted", format!("record with invalid code {} read as {:?}", c, variant_ty(&s)))),
    }
}

/// A record whose content is the type code alone (content length 2 words).
fn check_bare_record(c: i32) -> Result<(), Fail> {
    let bytes = c.to_le_bytes();
    let mut cur = Cursor::new(&bytes[..]);
    match (Ty::from_code(c), Shape::read_from(&mut cur, 4)) {
        (None, Err(Error::InvalidShapeType(x))) if x == c => Ok(()),
        (None, other) => Err(Fail::new(
            "invalid-record-accepted",
            format!("4-byte record with invalid code {}: {:?}, expected InvalidShapeType({})", c, other.map(|s| variant_ty(&s)), c),
        )),
        (Some(t), Ok(s)) => {
            if variant_ty(&s) != t {
                return Err(Fail::new("record-type", format!("4-byte record with code {} ({}) read as {:?}", c, t.name(), variant_ty(&s))));
            }
            Ok(())
        }
        (Some(_), Err(_)) => Ok(()), // a truncated record of a valid type may be refused
    }
}

/// A record carrying code c read as each of the 13 CONCRETE types (the typed decoder has its own type check).
fn check_typed_record(contents: &BTreeMap<i32, Vec<u8>>, scratch: &mut Vec<u8>, c: i32) -> Result<(), Fail> {
    struct T<'a>(&'a [u8], i32);
    impl KindFn for T<'_> {
        type Out = Result<(), Fail>;
        fn call<K: Kind>(self) -> Self::Out
        where
            Error: From<<K as TryFrom<Shape>>::Error>,
        {
            let (bytes, c) = (self.0, self.1);
            let mut cur = Cursor::new(bytes);
            let r = <K as ReadableShape>::read_from(&mut cur, bytes.len() as i32);
            match (Ty::from_code(c), r) {
                (None, Err(Error::InvalidShapeType(x))) if x == c => Ok(()),
                (None, Err(e)) => Err(Fail::new("wrong-error", format!("record with code {} read as {}: error {:?}, expected InvalidShapeType({})", c, K::TY.name(), e, c))),
                (None, Ok(_)) => Err(Fail::new("invalid-record-accepted", format!("record with invalid code {} ({:#x}) is decoded as a {}", c, c, K::TY.name()))),
                (Some(t), Ok(_)) => {
                    if t == K::TY {
                        Ok(())
                    } else {
                        Err(Fail::new("record-type", format!("record with code {} ({}) is decoded as a {}", c, t.name(), K::TY.name())))
                    }
                }
                (Some(t), Err(Error::MismatchShapeType { requested, actual })) => {
                    if t != K::TY && ty_of(requested) == K::TY && ty_of(actual) == t {
                        Ok(())
                    } else {
                        Err(Fail::new("wrong-error", format!("record with code {} ({}) read as {}: MismatchShapeType{{{:?}, {:?}}}", c, t.name(), K::TY.name(), requested, actual)))
                    }
                }
                (Some(t), Err(e)) => Err(Fail::new("wrong-error", format!("record with code {} ({}) read as {}: {:?}", c, t.name(), K::TY.name(), e))),
            }
        }
    }
    let bytes: &[u8] = match contents.get(&c) {
        Some(b) => &b[..],
        None => {
            scratch[0..4].copy_from_slice(&c.to_le_bytes());
            &scratch[..]
        }
    };
    for k in ALL13 {
        dispatch(k, T(bytes, c))?;
    }
    Ok(())
}

/// Whole-file path for one code: header type c and a record of type c through ShapeReader.
fn check_reader(c: i32) -> Result<(), Fail> {
    let t = Ty::from_code(c);
    let base_ty = t.unwrap_or(Ty::Point);
    let fm = refcodec::FileModel::simple(base_ty, vec![minimal_geom(base_ty)]);
    let mut enc = refcodec::encode(&fm);
    if t.is_none() {
        // invalid header code
        let mut shp = enc.shp.clone();
        shp[32..36].copy_from_slice(&c.to_le_bytes());
        {
            let p = std::path::PathBuf::from(format!("/verif/target/scratch/{}", std::process::id())).join(format!("c19h-{:?}.shp", std::thread::current().id()).replace(['(', ')'], ""));
            if let Some(dir) = p.parent() {
                let _ = std::fs::create_dir_all(dir);
            }
            if std::fs::write(&p, &shp).is_ok() && std::fs::write(p.with_extension("shx"), &enc.shx).is_ok() && std::fs::write(p.with_extension("dbf"), vlib::libops::dbf_with_rows(1)).is_ok() {
                let a = shapefile::Reader::from_path(&p).map(|_| ());
                let b = shapefile::read(&p).map(|_| ());
                let d = shapefile::read_shapes(&p).map(|_| ());
                for e in ["shp", "shx", "dbf"] {
                    let _ = std::fs::remove_file(p.with_extension(e));
                }
                for (what, r) in [("Reader::from_path", a), ("shapefile::read(path)", b), ("shapefile::read_shapes(path)", d)] {
                    match r {
                        Err(Error::InvalidShapeType(x)) if x == c => {}
                        Err(e) => return Err(Fail::new("wrong-error", format!("{} on a .shp whose header carries the invalid code {}: {:?}", what, c, e))),
                        Ok(()) => return Err(Fail::new("invalid-header-accepted", format!("{} accepted the .shp header code {}", what, c))),
                    }
                }
            }
        }
        match ShapeReader::new(Cursor::new(shp)) {
            Err(Error::InvalidShapeType(x)) if x == c => {}
            Err(e) => return Err(Fail::new("wrong-error", format!("ShapeReader::new with header code {}: {:?}", c, e))),
            Ok(_) => return Err(Fail::new("invalid-header-accepted", format!("ShapeReader::new accepted header code {}", c))),
        }
        // invalid code in the header of the .shx that accompanies a valid .shp: in memory and opened by path
        {
            let mut shx = enc.shx.clone();
            shx[32..36].copy_from_slice(&c.to_le_bytes());
            match ShapeReader::with_shx(Cursor::new(enc.shp.clone()), Cursor::new(shx.clone())) {
                Err(Error::InvalidShapeType(x)) if x == c => {}
                Err(e) => return Err(Fail::new("wrong-error", format!("ShapeReader::with_shx with .shx header code {}: {:?}", c, e))),
                Ok(_) => return Err(Fail::new("invalid-header-accepted", format!("ShapeReader::with_shx accepted .shx header code {}", c))),
            }
            let p = std::path::PathBuf::from(format!("/verif/target/scratch/{}", std::process::id())).join(format!("c19-{:?}.shp", std::thread::current().id()).replace(['(', ')'], ""));
            if let Some(dir) = p.parent() {
                let _ = std::fs::create_dir_all(dir);
            }
            if std::fs::write(&p, &enc.shp).is_ok() && std::fs::write(p.with_extension("shx"), &shx).is_ok() {
                let r = ShapeReader::from_path(&p);
                let _ = std::fs::remove_file(&p);
                let _ = std::fs::remove_file(p.with_extension("shx"));
                match r {
                    Err(Error::InvalidShapeType(x)) if x == c => {}
                    Err(e) => return Err(Fail::new("wrong-error", format!("ShapeReader::from_path with .shx header code {}: {:?}", c, e))),
                    Ok(_) => return Err(Fail::new("invalid-header-accepted", format!("ShapeReader::from_path accepted a .shx whose header carries the invalid code {}", c))),
                }
            }
        }
        // invalid record code
        enc.shp[108..112].copy_from_slice(&c.to_le_bytes());
        // ... read through the index as well: iteration, the collecting read and random access all fail with that code
        {
            let open = || ShapeReader::with_shx(Cursor::new(enc.shp.clone()), Cursor::new(enc.shx.clone())).map_err(|e| Fail::new("open-error", format!("{:?}", e)));
            let first = open()?.iter_shapes().next();
            match first {
                Some(Err(Error::InvalidShapeType(x))) if x == c => {}
                other => return Err(Fail::new("wrong-error", format!("record with code {} through with_shx(..).iter_shapes(): {:?}", c, other.map(|r| r.map(|s| variant_ty(&s)))))),
            }
            match open()?.read() {
                Err(Error::InvalidShapeType(x)) if x == c => {}
                other => return Err(Fail::new("wrong-error", format!("record with code {} through with_shx(..).read(): {:?}", c, other.map(|v| v.len())))),
            }
            for with_index in [true, false] {
                let sr = if with_index { open()? } else { ShapeReader::new(Cursor::new(enc.shp.clone())).map_err(|e| Fail::new("open-error", format!("{:?}", e)))? };
                let mk = |sr| -> Result<shapefile::Reader<Cursor<Vec<u8>>, Cursor<Vec<u8>>>, Fail> {
                    let dr = shapefile::dbase::Reader::new(Cursor::new(vlib::libops::dbf_with_rows(1))).map_err(|e| Fail::new("harness/dbf", format!("{:?}", e)))?;
                    Ok(shapefile::Reader::new(sr, dr))
                };
                let mut rd = mk(sr)?;
                let first = rd.iter_shapes_and_records().next();
                match first {
                    Some(Err(Error::InvalidShapeType(x))) if x == c => {}
                    other => return Err(Fail::new("wrong-error", format!("record with code {} through Reader::iter_shapes_and_records() (index: {}): {:?}", c, with_index, other.map(|r| r.map(|(s, _)| variant_ty(&s)))))),
                }
                let sr = if with_index { open()? } else { ShapeReader::new(Cursor::new(enc.shp.clone())).map_err(|e| Fail::new("open-error", format!("{:?}", e)))? };
                match mk(sr)?.read() {
                    Err(Error::InvalidShapeType(x)) if x == c => {}
                    other => return Err(Fail::new("wrong-error", format!("record with code {} through Reader::read() (index: {}): {:?}", c, with_index, other.map(|v| v.len())))),
                }
            }
            match open()?.read_nth_shape(0) {
                Some(Err(Error::InvalidShapeType(x))) if x == c => {}
                other => return Err(Fail::new("wrong-error", format!("record with code {} through with_shx(..).read_nth_shape(0): {:?}", c, other.map(|r| r.map(|s| variant_ty(&s)))))),
            }
        }
        let mut r = ShapeReader::new(Cursor::new(enc.shp)).map_err(|e| Fail::new("open-error", format!("{:?}", e)))?;
        let first = r.iter_shapes().next();
        match first {
            Some(Err(Error::InvalidShapeType(x))) if x == c => Ok(()),
            other => Err(Fail::new(
                "wrong-error",
                format!("record with code {} through iter_shapes: {:?}", c, other.map(|r| r.map(|s| variant_ty(&s)))),
            )),
        }
    } else {
        let mut r = ShapeReader::new(Cursor::new(enc.shp.clone())).map_err(|e| Fail::new("open-error", format!("{:?}", e)))?;
        if r.header().shape_type as i32 != c {
            return Err(Fail::new("header-type", format!("reader header type {:?} for code {}", r.header().shape_type, c)));
        }
        match r.iter_shapes().next() {
            Some(Ok(s)) if variant_ty(&s) == base_ty && s.shapetype() as i32 == c => {}
            other => {
                return Err(Fail::new(
                    "record-type",
                    format!("file of code {}: first shape {:?}", c, other.map(|r| r.map(|s| (variant_ty(&s), s.shapetype())))),
                ))
            }
        }
        // the same .shp next to an index whose own header carries ANY valid code b: the .shp header still decodes to c
        for b in VALID_CODES {
            let mut shx = enc.shx.clone();
            shx[32..36].copy_from_slice(&b.to_le_bytes());
            let mut r = ShapeReader::with_shx(Cursor::new(enc.shp.clone()), Cursor::new(shx)).map_err(|e| Fail::new("open-error", format!(".shp code {} with .shx header code {}: {:?}", c, b, e)))?;
            if r.header().shape_type as i32 != c {
                return Err(Fail::new("header-type", format!(".shp header code {} decoded as {:?} (code {}) when the .shx header carries code {}", c, r.header().shape_type, r.header().shape_type as i32, b)));
            }
            let first = r.iter_shapes().next();
            match first {
                Some(Ok(s)) if variant_ty(&s) == base_ty && s.shapetype() as i32 == c => {}
                other => {
                    return Err(Fail::new(
                        "record-type",
                        format!("file of code {} with .shx header code {}: first shape {:?}", c, b, other.map(|r| r.map(|s| (variant_ty(&s), s.shapetype())))),
                    ))
                }
            }
        }
        Ok(())
    }
}

/// Encoding direction through the writer: the headers of a file holding shapes of type t carry t's code, whether or
/// not finalize() was called before the first write.
fn check_writer_headers(t: Ty) -> Result<(), Fail> {
    struct W(Ty);
    impl KindFn for W {
        type Out = Result<(), Fail>;
        fn call<K: Kind>(self) -> Self::Out
        where
            Error: From<<K as TryFrom<Shape>>::Error>,
        {
            let shape = K::build(&minimal_geom(self.0), Ctor::Plain);
            for fin_first in [false, true] {
                let (shp, shx) = (vlib::io::Dest::new(), vlib::io::Dest::new());
                {
                    let mut w = shapefile::ShapeWriter::with_shx(shp.clone(), shx.clone());
                    if fin_first {
                        w.finalize().map_err(|e| Fail::new("write-error", format!("{:?}", e)))?;
                    }
                    w.write_shape(&shape).map_err(|e| Fail::new("write-error", format!("{:?}", e)))?;
                }
                for (name, bytes) in [(".shp", shp.bytes()), (".shx", shx.bytes())] {
                    if bytes.len() < 100 {
                        return Err(Fail::new("header-type", format!("{} of a {} file has {} bytes", name, self.0.name(), bytes.len())));
                    }
                    let code = i32::from_le_bytes(bytes[32..36].try_into().unwrap());
                    if code != self.0.code() {
                        return Err(Fail::new(
                            "header-type",
                            format!("{} header of a file holding a {} carries code {} (expected {}){}", name, self.0.name(), code, self.0.code(), if fin_first { " after finalize() before the first write" } else { "" }),
                        ));
                    }
                }
                let mut r = ShapeReader::with_shx(Cursor::new(shp.bytes()), Cursor::new(shx.bytes())).map_err(|e| Fail::new("open-error", format!("{:?}", e)))?;
                if r.header().shape_type as i32 != self.0.code() {
                    return Err(Fail::new("header-type", format!("a written {} file reads back with header type {:?}", self.0.name(), r.header().shape_type)));
                }
                let first = r.iter_shapes().next();
                match first {
                    Some(Ok(s)) if s.shapetype() as i32 == self.0.code() => {}
                    other => return Err(Fail::new("record-type", format!("a written {} file: first shape {:?}", self.0.name(), other.map(|r| r.map(|s| s.shapetype()))))),
                }
            }
            Ok(())
        }
    }
    dispatch(t, W(t))
}

fn interesting_codes() -> Vec<i32> {
    let mut s: HashSet<i32> = HashSet::new();
    for c in VALID_CODES {
        s.insert(c);
        s.insert(c.swap_bytes());
        for b in 0..32 {
            s.insert(c ^ (1 << b));
        }
        for d in [-2, -1, 1, 2] {
            s.insert(c.wrapping_add(d));
        }
        s.insert(-c);
        s.insert(c.wrapping_add(1 << 8));
        s.insert(c.wrapping_add(1 << 16));
        s.insert(c.wrapping_add(1 << 24));
    }
    for c in [i32::MIN, i32::MAX, -1, 32, 33, 255, 256, 9994, 1000] {
        s.insert(c);
    }
    let mut v: Vec<i32> = s.into_iter().collect();
    v.sort();
    v
}

fn check_all_paths(c: i32) -> Result<(), Fail> {
    check_from(c)?;
    let mut hdr: [u8; 100] = refcodec::header_bytes(50, 1, &[F(0); 8]).try_into().unwrap();
    check_header(&mut hdr, c)?;
    let contents = valid_contents();
    let mut scratch = vec![0u8; 20];
    check_record(&contents, &mut scratch, c)?;
    check_bare_record(c)?;
    check_typed_record(&contents, &mut scratch, c)?;
    check_header_variants(c)?;
    check_reader(c)?;
    match Ty::from_code(c) {
        Some(t) if t != Ty::Null => check_writer_headers(t),
        _ => Ok(()),
    }
}

fn valid_contents() -> BTreeMap<i32, Vec<u8>> {
    ALL14.iter().map(|t| (t.code(), refcodec::encode_content(&minimal_geom(*t)).0)).collect()
}

impl SubCheck for CodeTable {
    fn name(&self) -> &'static str {
        "codetable"
    }
    fn run(&self, _prop_id: &str, env: &Env, _known: &Known) -> SubReport {
        let nw = env.workers.max(1) as u64;
        let total: u64 = 1 << 32;
        let full_files = env.thorough();
        let interesting = interesting_codes();
        let interesting_set: HashSet<i32> = interesting.iter().copied().collect();
        // quick tier file-path domain: [-2^17, 2^17] + interesting + 4M generated
        let outs: Vec<(u64, u64, u64, Option<(i32, Fail)>)> = std::thread::scope(|s| {
            let hs: Vec<_> = (0..nw)
                .map(|w| {
                    let seed = env.seed;
                    let iset = &interesting_set;
                    s.spawn(move || {
                        let lo = total * w / nw;
                        let hi = total * (w + 1) / nw;
                        let mut hdr: [u8; 100] = refcodec::header_bytes(50, 1, &[F(0); 8]).try_into().unwrap();
                        let contents = valid_contents();
                        let mut scratch = vec![0u8; 20];
                        let mut n_from = 0u64;
                        let mut n_file = 0u64;
                        let mut n_int = 0u64;
                        let mut x = seed ^ (w.wrapping_mul(0x9E3779B97F4A7C15));
                        for u in lo..hi {
                            let c = u as u32 as i32;
                            n_from += 1;
                            if let Err(f) = check_from(std::hint::black_box(c)) {
                                return (n_from, n_file, n_int, Some((c, f)));
                            }
                            // |c| <= 2^17, and every code whose bits 16..=28 are zero (any combination of the three top bits x low 16 bits)
                            let small = (-(1 << 17)..=(1 << 17)).contains(&c) || (c as u32 & 0x1FFF_0000) == 0;
                            let is_int = iset.contains(&c);
                            if is_int {
                                n_int += 1;
                            }
                            if full_files || small || is_int {
                                n_file += 2;
                                if let Err(f) = check_header(&mut hdr, c)
                                    .and_then(|_| check_record(&contents, &mut scratch, c))
                                    .and_then(|_| check_bare_record(c))
                                    .and_then(|_| check_typed_record(&contents, &mut scratch, c))
                                {
                                    return (n_from, n_file, n_int, Some((c, f)));
                                }
                            }
                        }
                        if !full_files {
                            // 4M pseudo-random codes in total (xorshift; the sequence is a pure function of the seed)
                            for _ in 0..(4_000_000 / nw) {
                                x ^= x << 13;
                                x ^= x >> 7;
                                x ^= x << 17;
                                let c = x as u32 as i32;
                                n_file += 2;
                                if let Err(f) = check_header(&mut hdr, c).and_then(|_| check_record(&contents, &mut scratch, c)).and_then(|_| check_bare_record(c)) {
                                    return (n_from, n_file, n_int, Some((c, f)));
                                }
                            }
                        }
                        (n_from, n_file, n_int, None)
                    })
                })
                .collect();
            hs.into_iter().map(|h| h.join().unwrap()).collect()
        });
        let mut rep = SubReport {
            name: "codetable".into(),
            rule: "exhaustive: ShapeType::from(c) for all 2^32 codes c against an independent table (Some exactly for the 14 ESRI codes, \
                   `as i32` returns c, has_z/has_m/is_multipart/Display per table); file path (Header::read_from; Shape::read_from with the code in a full record and in a record \
                   that consists of the type code alone) exhaustive in thorough, in quick for |c|<=2^17 and for every code whose bits 16..28 are zero (all top-3-bit combinations x low 16 bits), there also read as each of the 13 concrete types, all single-bit/byte-swapped/+-1,2 neighbours of \
                   the 14 codes and 4M generated codes; ShapeReader path for all neighbour codes. Non-trivial: the 14 valid codes and \
                   their neighbours (single bit flip, byte swap, +-1, +-2, negation, +2^8k), counted as visited"
                .into(),
            evaluations: 0,
            inner_evaluations: 0,
            nontrivial: HashSet::new(),
            nontrivial_capped: false,
            hist: BTreeMap::new(),
            samples: vec![],
            exhaustive: true,
            violation: None,
            known: BTreeMap::new(),
        };
        let mut n_int = 0;
        for (w, (a, b, c, v)) in outs.into_iter().enumerate() {
            rep.evaluations += a;
            rep.inner_evaluations += b;
            n_int += c;
            if rep.violation.is_none() {
                if let Some((code, f)) = v {
                    rep.violation = Some(Violation {
                        key: f.key,
                        msg: f.msg,
                        case: json!({ "code": code }),
                        worker: w,
                    });
                }
            }
        }
        // ShapeReader path on every interesting code (whole-file route)
        if rep.violation.is_none() {
            for &c in &interesting {
                rep.inner_evaluations += 7 + 14;
                if let Err(f) = check_reader(c).and_then(|_| check_header_variants(c)).and_then(|_| match Ty::from_code(c) {
                    Some(t) if t != Ty::Null => check_writer_headers(t),
                    _ => Ok(()),
                }) {
                    rep.violation = Some(Violation {
                        key: f.key,
                        msg: f.msg,
                        case: json!({ "code": c }),
                        worker: 0,
                    });
                    break;
                }
            }
        }
        *rep.hist.entry("codes-through-from".into()).or_insert(0) += rep.evaluations;
        *rep.hist.entry("file-path-evaluations".into()).or_insert(0) += rep.inner_evaluations;
        *rep.hist.entry("neighbour-codes-visited".into()).or_insert(0) += n_int;
        if n_int as usize == interesting.len() {
            for c in &interesting {
                rep.nontrivial.insert(*c as u32 as u64);
            }
        }
        rep.samples = vec![json!({"code": 31}), json!({"code": 30}), json!({"code": 520093696}), json!({"code": -1})];
        rep
    }
    fn replay(&self, case: &Value) -> Result<(), Fail> {
        let c = case
            .get("code")
            .and_then(|x| x.as_i64())
            .ok_or_else(|| Fail::new("harness/replay-parse", "no code".into()))? as i32;
        match guard(|| check_all_paths(c)) {
            Ok(r) => r,
            Err(p) => Err(Fail::new(&panic_key(&p), format!("panic: {}", p))),
        }
    }
}

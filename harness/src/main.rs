//! vcheck <ID> [--tier quick|thorough] [--replay <file>]
mod c01;
mod c02;
mod c03;
mod c05;
mod c06;
mod c07;
mod c08;
mod c09;
mod c11;
mod c12;
mod c13;
mod c15;
mod c16;
mod c18;
mod c19;
mod common;
mod huge;

use std::path::PathBuf;

#[global_allocator]
static ALLOC: vlib::alloc::Counting = vlib::alloc::Counting;

const SUPERVISED: [&str; 2] = ["C07", "C17"];
use vlib::run::*;

pub struct PropDef {
    pub level: &'static str,
    pub subs: Vec<Box<dyn SubCheck>>,
    pub assumptions: Vec<&'static str>,
}

fn registry(id: &str) -> Option<PropDef> {
    Some(match id {
        "C01" => PropDef {
            level: "exploration",
            subs: vec![random::<c01::RoundTrip>(), random::<c01::RoundTripLarge>(), random::<c01::RoundTripBufio>(), random::<huge::HugeRoundTrip>()],
            assumptions: vec![
                "ring-role clause asserted only where the signed area is exactly computable (dyadic coordinates) and non-zero",
                "shapes are built through public constructors honouring their documented preconditions (polyline parts >= 2 points, non-empty first ring/patch)",
            ],
        },
        "C02" => PropDef {
            level: "exploration",
            subs: vec![random::<c02::WellFormed>(), random::<c02::WellFormedLarge>(), random::<huge::HugeWellFormed>()],
            assumptions: vec!["the strict decoder in vlib/refcodec.rs (written from the ESRI whitepaper, pinned to the third-party fixtures at start-up) is the reference"],
        },
        "C04" => PropDef {
            level: "exploration",
            subs: vec![random::<c02::IndexAddresses>(), random::<c02::IndexLarge>(), random::<c02::IndexBufio>(), random::<huge::HugeIndex>()],
            assumptions: vec!["record offsets come from the independent strict decoder"],
        },
        "C03" => PropDef {
            level: "exploration",
            subs: vec![random::<c03::Foreign>(), random::<c03::ForeignLarge>(), random::<c03::ForeignBufio>()],
            assumptions: vec!["the reference encoder in vlib/refcodec.rs defines 'spec-conformant' (pinned to third-party fixtures at start-up)", "ring roles asserted only where the signed area is exactly computable and non-zero"],
        },
        "C14" => PropDef {
            level: "exploration",
            subs: vec![random::<c03::IndexOnly>(), random::<c03::IndexOnlyBufio>()],
            assumptions: vec!["filler runs have even length because index offsets are expressed in 16-bit words"],
        },
        "C05" => PropDef {
            level: "exploration",
            subs: vec![random::<c05::Boxes>(), random::<c05::BoxesLarge>()],
            assumptions: vec!["coordinates are never NaN (the property excludes NaN)", "no claim for the header M range of multipatch files or files containing no-data measures"],
        },
        "C06" => PropDef {
            level: "exploration",
            subs: vec![random::<c06::Typed>(), random::<c06::TypedForeign>()],
            assumptions: vec!["the 13 x 14 (requested, actual) matrix is covered completely by every generated file; file contents are sampled"],
        },
        "C07" => PropDef {
            level: "exploration",
            subs: vec![enumerated::<c07::FieldGrid>(), enumerated::<c07::Cuts>(), random::<c07::Mutants>()],
            assumptions: vec![
                "harness profile: opt-level 2 with overflow-checks and debug-assertions on for the library and all dependencies",
                "'runs forever' is decided by an item cap derived from the input size, never by a clock; a watchdog expiry is reported as inconclusive (exit 2)",
                "libFuzzer campaigns (fuzz/) complement this check in the thorough tier",
            ],
        },
        "C17" => PropDef {
            level: "exploration",
            subs: vec![random::<c07::Unbacked>(), enumerated::<c07::AllocGrid>(), random::<c07::AllocMutants>()],
            assumptions: vec![
                "memory 'requested' = bytes passed to the global allocator by the thread executing the reader call, net of frees inside the same call",
                "sources are in-memory cursors over borrowed slices, so the measurement contains only the library's own requests",
            ],
        },
        "C08" => PropDef {
            level: "exploration",
            subs: vec![random::<c08::Pairs>(), random::<c08::PairsLarge>()],
            assumptions: vec![
                "dbf tables without deleted rows; rows physically present are counted from the dbf header's header-length / record-length fields",
                "known finding K1 (row rejected by dbase after the shape was written) ends the checking of a history at that call",
            ],
        },
        "C09" => PropDef {
            level: "exploration",
            subs: vec![enumerated::<c09::Interleave>()],
            assumptions: vec!["complete within the stated history-length bound for one generated pair of shapes per type (pair changes with VERIF_SEED)"],
        },
        "C10" => PropDef {
            level: "exploration",
            subs: vec![enumerated::<c09::OneType>(), enumerated::<c09::OneTypeLong>()],
            assumptions: vec!["complete within the stated history-length bound; the complete Writer has no finalize, so its histories contain writes only"],
        },
        "C11" => PropDef {
            level: "fault_enumeration",
            subs: vec![random::<c11::Crash>()],
            assumptions: vec![
                "a crash is modelled at the granularity of the write/seek/flush calls the library issues on its destination, with every byte cut inside a write; .shp and .shx prefixes are independent",
                "OS page-cache reordering and BufWriter buffering on the from_path route are outside the model",
            ],
        },
        "C12" => PropDef {
            level: "fault_enumeration",
            subs: vec![random::<c12::DestFaults>()],
            assumptions: vec!["faults are injected at the Write/Seek trait calls of the destination type handed to the writer; the failing call is identified by bracketing each API call with the destination's op counter"],
        },
        "C13" => PropDef {
            level: "fault_enumeration",
            subs: vec![random::<c13::Sources>(), random::<c13::SourcesGapped>()],
            assumptions: vec!["faults are injected at the Read/Seek trait calls of the source type handed to the reader; files come from the reference encoder (which also produces the library writer's layout)"],
        },
        "C15" => PropDef {
            level: "exploration",
            subs: vec![enumerated::<c15::Histories>()],
            assumptions: vec!["complete within the stated history-length bound; a read_nth that returns None is modelled as leaving the reader's position unchanged"],
        },
        "C16" => PropDef {
            level: "exploration",
            subs: vec![random::<c16::Rings>()],
            assumptions: vec!["orientation asserted on coordinates where the shoelace sum is exact (dyadic, bounded); closure and vertex preservation on arbitrary non-NaN doubles", "'closed' means the library's own == on its point types"],
        },
        "C18" => PropDef {
            level: "exploration",
            subs: vec![enumerated::<c18::SizeGrid>(), random::<c18::SizeRandom>(), random::<c18::SizeOfRead>(), random::<c18::SizeFile>()],
            assumptions: vec!["the dense grid is complete within its stated bounds; larger shapes are sampled"],
        },
        "C19" => PropDef {
            level: "exploration",
            subs: vec![Box::new(c19::CodeTable)],
            assumptions: vec!["the table in vlib/model.rs transcribes the ESRI whitepaper's shape type list"],
        },
        _ => return None,
    })
}

fn main() {
    let args: Vec<String> = std::env::args().collect();
    if args.len() < 2 {
        eprintln!("usage: vcheck <ID> [--tier quick|thorough] [--replay <file>]");
        std::process::exit(2);
    }
    let id = args[1].clone();
    if id == "CORPUS" {
        // regenerate the committed seed corpus for the reader_raw fuzz target (fixtures + encoder output)
        let dir = std::path::Path::new("/verif/corpus/raw");
        std::fs::create_dir_all(dir).unwrap();
        let put = |name: &str, shp: &[u8], shx: &[u8]| {
            let mut v = (shp.len().min(65535) as u16).to_le_bytes().to_vec();
            v.extend_from_slice(shp);
            v.extend_from_slice(shx);
            std::fs::write(dir.join(name), v).unwrap();
        };
        for e in std::fs::read_dir("/repo/tests/data").unwrap().flatten() {
            let p = e.path();
            if p.extension().map(|x| x == "shp").unwrap_or(false) {
                let shp = std::fs::read(&p).unwrap();
                if shp.len() > 4000 {
                    continue;
                }
                let shx = std::fs::read(p.with_extension("shx")).unwrap_or_default();
                put(&format!("fixture-{}", p.file_stem().unwrap().to_string_lossy()), &shp, &shx);
            }
        }
        let strat = c03::file_model(3, 3, 4);
        for k in 0..40u64 {
            let m: vlib::refcodec::FileModel = sample_strategy(&strat, 7, &format!("corpus-{}", k));
            let e = vlib::refcodec::encode(&m);
            put(&format!("model-{:02}-{}", k, m.ty.name()), &e.shp, &e.shx);
        }
        return;
    }
    let mut tier = match std::env::var("VERIF_TIER").ok().as_deref() {
        Some("thorough") => Tier::Thorough,
        _ => Tier::Quick,
    };
    let mut replay: Option<PathBuf> = None;
    let mut i = 2;
    while i < args.len() {
        match args[i].as_str() {
            "--tier" => {
                i += 1;
                tier = if args.get(i).map(|s| s.as_str()) == Some("thorough") {
                    Tier::Thorough
                } else {
                    Tier::Quick
                };
            }
            "quick" => tier = Tier::Quick,
            "thorough" => tier = Tier::Thorough,
            "--replay" => {
                i += 1;
                replay = args.get(i).map(PathBuf::from);
            }
            other => {
                eprintln!("unknown argument {}", other);
                std::process::exit(2);
            }
        }
        i += 1;
    }
    if SUPERVISED.contains(&id.as_str()) && std::env::var("VERIF_CHILD").is_err() {
        // abort- and hang-proof: the real work happens in a supervised child process
        let code = match &replay {
            Some(p) => supervise_replay(&id, p),
            None => supervise(&id, &args[1..], 300),
        };
        std::process::exit(code);
    }
    inflight::enable_from_env();
    install_panic_hook();
    // self-test of the independent codec against third-party fixtures: an oracle bug must show up as
    // an infrastructure error (exit 2), never as an alarm on the library.
    match vlib::refcodec::selftest(std::path::Path::new("/repo/tests/data")) {
        Ok(_) => {}
        Err(e) => {
            eprintln!("INCONCLUSIVE: reference codec self-test failed: {}", e);
            std::process::exit(2);
        }
    }
    let def = match registry(&id) {
        Some(d) => d,
        None => {
            eprintln!("unknown property {}", id);
            std::process::exit(2);
        }
    };
    let code = if let Some(p) = replay {
        replay_main(&id, &p, def.subs)
    } else {
        let env = Env::from_env(tier);
        run_property(&id, def.level, &env, def.subs, &def.assumptions)
    };
    common::cleanup_scratch();
    std::process::exit(code);
}

//! C02 — every written .shp is a well-formed ESRI shapefile (independent decoder).
//! C04 — the .shx written alongside addresses exactly the .shp records.
//! C18 — announced byte size equals what serialisation emits (writer leg).

use crate::common::*;
use proptest::prelude::*;
use shapefile::record::WritableShape;
use shapefile::Shape;
use vlib::kinds::*;
use vlib::libops::*;
use vlib::model::*;
use vlib::refcodec::{self, Mode};
use vlib::run::*;
use vlib::{ensure, fail};

/// View of a written value as the file can represent it: polygon ring roles are not stored.
pub fn file_view(g: &Geom) -> Geom {
    let mut g = g.clone();
    if g.ty.family() == Family::Polygon {
        for p in g.parts.iter_mut() {
            p.kind = 0;
        }
    }
    g
}

pub struct WellFormed;

impl Prop for WellFormed {
    type Case = FileCase;
    fn name() -> &'static str {
        "wellformed"
    }
    fn rule() -> &'static str {
        "proptest: as C01 but n>=0; the bytes left in the destination after drop / finalize+drop / write_shapes — with finalize() also called at generated \
         positions in the middle and shapes of another type offered (and rejected) at generated positions — must be accepted by \
         the strict independent decoder (header code, zero words, length == real length, version, type; records 1..n gap-free, \
         content length == real length, type code, per-type layout, ascending part offsets from 0, patch kinds, little-endian) and \
         decode to exactly the accessor view of the shapes handed in (bit patterns, M as given). With and without shx destination. \
         Non-trivial: >=2 records or a type other than Point/Polyline/Polygon"
    }
    fn check(c: &FileCase, ctx: &mut Ctx) -> Result<(), Fail> {
        struct F<'a>(&'a FileCase, &'a mut Ctx);
        impl KindFn for F<'_> {
            type Out = Result<(), Fail>;
            fn call<K: Kind>(self) -> Self::Out
            where
                shapefile::Error: From<<K as TryFrom<Shape>>::Error>,
            {
                wellformed_k::<K>(self.0, self.1)
            }
        }
        dispatch(c.ty, F(c, ctx))
    }
}

impl RandomProp for WellFormed {
    fn strategy(env: &Env) -> BoxedStrategy<FileCase> {
        let (n, parts, pts) = sizes(env);
        file_case(FileGen {
            min_n: 0,
            max_n: n,
            nan_zm: true,
            max_parts: parts,
            max_pts: pts,
            disk_every: 6,
        })
    }
    fn cases(env: &Env) -> u64 {
        env.n(13 * 10_000, 13 * 300_000)
    }
}

pub struct WellFormedLarge;
impl Prop for WellFormedLarge {
    type Case = FileCase;
    fn name() -> &'static str {
        "wellformed-large"
    }
    fn rule() -> &'static str {
        "proptest: the wellformed oracle on LARGE files (130-420 records, or 260-330 parts, or 70-300 points per part); non-trivial: every case"
    }
    fn check(c: &FileCase, ctx: &mut Ctx) -> Result<(), Fail> {
        ctx.nontrivial();
        WellFormed::check(c, ctx)
    }
}
impl RandomProp for WellFormedLarge {
    fn strategy(_env: &Env) -> BoxedStrategy<FileCase> {
        large_file_case(true)
    }
    fn cases(env: &Env) -> u64 {
        env.n(13 * 20, 13 * 800)
    }
}

pub struct IndexLarge;
impl Prop for IndexLarge {
    type Case = FileCase;
    fn name() -> &'static str {
        "index-large"
    }
    fn rule() -> &'static str {
        "proptest: the index oracle on LARGE files (130-420 records, or 260-330 parts, or 70-300 points per part); non-trivial: every case"
    }
    fn check(c: &FileCase, ctx: &mut Ctx) -> Result<(), Fail> {
        ctx.nontrivial();
        IndexAddresses::check(c, ctx)
    }
}
pub struct IndexBufio;
impl Prop for IndexBufio {
    type Case = FileCase;
    fn name() -> &'static str {
        "index-bufio"
    }
    fn rule() -> &'static str {
        "proptest: the index oracle on path-created pairs of 2500-7000 (one in eight: > 65536) small records of varying sizes, read back          by path with and without the .shx: the files span many 8 KiB BufReader / BufWriter buffers, so record headers and index          entries fall on every alignment relative to the buffer edges; non-trivial: every case"
    }
    fn check(c: &FileCase, ctx: &mut Ctx) -> Result<(), Fail> {
        ctx.nontrivial();
        IndexAddresses::check(c, ctx)
    }
}
impl RandomProp for IndexBufio {
    fn strategy(_env: &Env) -> BoxedStrategy<FileCase> {
        bufio_file_case()
    }
    fn cases(env: &Env) -> u64 {
        env.n(16, 160)
    }
}

impl RandomProp for IndexLarge {
    fn strategy(_env: &Env) -> BoxedStrategy<FileCase> {
        large_file_case(true)
    }
    fn cases(env: &Env) -> u64 {
        env.n(13 * 20, 13 * 800)
    }
}

fn wellformed_k<K: Kind>(c: &FileCase, ctx: &mut Ctx) -> Result<(), Fail> {
    classify_file(ctx, &c.geoms);
    if c.geoms.len() >= 2 || !matches!(c.ty, Ty::Point | Ty::Polyline | Ty::Polygon) {
        ctx.nontrivial();
    }
    let shapes: Vec<K> = build_all(&c.geoms, c.ctor);
    let written: Vec<Geom> = views(&shapes).iter().map(file_view).collect();
    for route in 0..3u8 {
        let with_shx = route == 0;
        if route == 2 && !c.disk {
            continue;
        }
        let (shp, _shx) = if route == 2 {
            // files on disk through ShapeWriter::from_path (BufWriter<File>)
            ctx.class("disk-route");
            let p = scratch_shp("c02", shapes.len() + c.mid_fins as usize);
            {
                let w = shapefile::ShapeWriter::from_path(&p).map_err(|e| Fail::new("write-error", err_str(&e)))?;
                drive_writer_ff(w, &shapes, c.fin, c.mid_fins, c.rejects & 1 != 0).map_err(|e| Fail::new("write-error", e))?;
            }
            (std::fs::read(&p).map_err(|e| Fail::new("disk-io", e.to_string()))?, None)
        } else {
            match write_bytes_hist(&shapes, with_shx, c.fin, c.mid_fins, c.rejects) {
                Ok(x) => x,
                Err(e) => fail!("write-error", "{}", e),
            }
        };
        let d = match refcodec::decode(&shp, Mode::Strict) {
            Ok(d) => d,
            Err(e) => fail!("malformed", "strict decoder rejects the written .shp ({} shapes of {}): {}", shapes.len(), c.ty.name(), e),
        };
        if shapes.is_empty() {
            ensure!(d.ty == c.ty || d.ty == Ty::Null, "header-type", "empty file has header type {:?}", d.ty);
        } else {
            ensure!(d.ty == c.ty, "header-type", "header type {:?} for shapes of {:?}", d.ty, c.ty);
        }
        ensure!(
            d.recs.len() == written.len(),
            "count",
            "decoder found {} records, {} shapes were written",
            d.recs.len(),
            written.len()
        );
        for (i, (r, w)) in d.recs.iter().zip(&written).enumerate() {
            if let Err(m) = same_geom(w, &r.geom) {
                fail!("geometry-differs", "record {}: handed in vs decoded: {}", i + 1, m);
            }
            // C18 through the writer: content length == announced size + 4 (type code), even
            let announced = shapes[i].size_in_bytes();
            ensure!(
                r.content_len == announced + 4 && (announced + 4) % 2 == 0,
                "content-length",
                "record {}: content length {} bytes, announced size {} + 4",
                i + 1,
                r.content_len,
                announced
            );
        }
    }
    Ok(())
}

// ---------------------------------------------------------------------------------------------
// C04

pub struct IndexAddresses;

impl Prop for IndexAddresses {
    type Case = FileCase;
    fn name() -> &'static str {
        "index"
    }
    fn rule() -> &'static str {
        "proptest: n>=0 shapes of unequal sizes written with an index destination (memory; 1 in 4 via from_path). Independent parse \
         of the .shx: header == .shp header except length 50+4n words, entry i == (record i offset, content length) in words from \
         the independent .shp decoder; reader with both files: shape_count == n, read_nth(i) == i-th iterated shape, None for i>=n, \
         same sequence with and without index, size_hint == remaining before every next(). \
         Non-trivial: n>=2 with at least two different record sizes"
    }
    fn check(c: &FileCase, ctx: &mut Ctx) -> Result<(), Fail> {
        struct F<'a>(&'a FileCase, &'a mut Ctx);
        impl KindFn for F<'_> {
            type Out = Result<(), Fail>;
            fn call<K: Kind>(self) -> Self::Out
            where
                shapefile::Error: From<<K as TryFrom<Shape>>::Error>,
            {
                index_k::<K>(self.0, self.1)
            }
        }
        dispatch(c.ty, F(c, ctx))
    }
}

impl RandomProp for IndexAddresses {
    fn strategy(env: &Env) -> BoxedStrategy<FileCase> {
        let (n, parts, pts) = sizes(env);
        file_case(FileGen {
            min_n: 0,
            max_n: n,
            nan_zm: true,
            max_parts: parts,
            max_pts: pts,
            disk_every: 4,
        })
    }
    fn cases(env: &Env) -> u64 {
        env.n(13 * 8000, 13 * 200_000)
    }
}

fn index_k<K: Kind>(c: &FileCase, ctx: &mut Ctx) -> Result<(), Fail> {
    classify_file(ctx, &c.geoms);
    let shapes: Vec<K> = build_all(&c.geoms, c.ctor);
    let n = shapes.len();
    let (shp, shx) = if c.disk {
        ctx.class("disk-route");
        let p = scratch_shp("c04", shapes.len() + c.mid_fins as usize);
        {
            let w = shapefile::ShapeWriter::from_path(&p).map_err(|e| Fail::new("write-error", err_str(&e)))?;
            drive_writer_ff(w, &shapes, c.fin, c.mid_fins, c.rejects & 1 != 0).map_err(|e| Fail::new("write-error", e))?;
        }
        let a = std::fs::read(&p).map_err(|e| Fail::new("disk-io", e.to_string()))?;
        let b = std::fs::read(p.with_extension("shx")).map_err(|e| Fail::new("disk-io", e.to_string()))?;
        // path-based reader must behave the same
        let r = shapefile::ShapeReader::from_path(&p).map_err(|e| Fail::new("open-error", err_str(&e)))?;
        ensure!(r.shape_count().ok() == Some(n), "shape-count", "from_path reader reports {:?} shapes, {} written", r.shape_count().ok(), n);
        // the complete reader opened by path is "a reader given both files" as well: count, seek through the index, size hint
        std::fs::write(p.with_extension("dbf"), dbf_with_rows(n)).map_err(|e| Fail::new("disk-io", e.to_string()))?;
        let mut cr = shapefile::Reader::from_path(&p).map_err(|e| Fail::new("open-error", format!("Reader::from_path: {}", err_str(&e))))?;
        ensure!(cr.shape_count().ok() == Some(n), "shape-count", "Reader::from_path reports {:?} shapes, {} written", cr.shape_count().ok(), n);
        ensure!(cr.iter_shapes_and_records().size_hint().0 <= n, "size-hint", "Reader::from_path: size hint {:?} for {} shapes", cr.iter_shapes_and_records().size_hint(), n);
        if n > 0 {
            let k = n - 1;
            cr.seek(k).map_err(|e| Fail::new("index-vs-sequential", format!("Reader::from_path: seek({}) of {} fails: {}", k, n, err_str(&e))))?;
            let first = cr.iter_shapes_and_records().next();
            match first {
                Some(Ok((s, _))) => {
                    if let Err(m) = same_after_read(&expected_after_read(&shapes[k].view()), &view_shape(&s)) {
                        fail!("index-vs-sequential", "Reader::from_path: first shape after seek({}) is not shape {}: {}", k, k, m);
                    }
                }
                other => fail!("index-vs-sequential", "Reader::from_path: after seek({}) of {}: {:?}", k, n, other.map(|r| r.map(|_| ()).map_err(|e| err_str(&e)))),
            }
        }
        (a, b)
    } else {
        match write_bytes_hist(&shapes, true, c.fin, c.mid_fins, c.rejects) {
            Ok((a, b)) => (a, b.unwrap()),
            Err(e) => fail!("write-error", "{}", e),
        }
    };
    let d = match refcodec::decode(&shp, Mode::Strict) {
        Ok(d) => d,
        Err(e) => fail!("malformed", "strict decoder rejects the .shp: {}", e),
    };
    ensure!(d.recs.len() == n, "count", "{} records decoded, {} written", d.recs.len(), n);
    let sizes: std::collections::BTreeSet<usize> = d.recs.iter().map(|r| r.content_len).collect();
    if n >= 2 && sizes.len() >= 2 {
        ctx.nontrivial();
    }
    // independent parse of the index
    ensure!(shx.len() == 100 + 8 * n, "shx-length", ".shx is {} bytes for {} shapes", shx.len(), n);
    let x = match refcodec::decode_shx(&shx) {
        Ok(x) => x,
        Err(e) => fail!("shx-malformed", "{}", e),
    };
    ensure!(x.len_words == 50 + 4 * n as i32, "shx-header-length", "shx length field {} words for {} shapes", x.len_words, n);
    ensure!(
        shx[..24] == shp[..24] && shx[28..100] == shp[28..100],
        "shx-header",
        ".shx header differs from the .shp header outside the length field"
    );
    for (i, (r, e)) in d.recs.iter().zip(&x.entries).enumerate() {
        ensure!(
            e.0 as usize * 2 == r.offset && e.1 as usize * 2 == r.content_len,
            "shx-entry",
            "index entry {} = (offset {} words, length {} words) but record starts at byte {} with {} content bytes",
            i,
            e.0,
            e.1,
            r.offset,
            r.content_len
        );
    }
    // consequences on the reader
    let open = |with: bool| open_mem(&shp, if with { Some(&shx[..]) } else { None }).map_err(|e| Fail::new("open-error", err_str(&e)));
    let mut r = open(true)?;
    ensure!(r.shape_count().ok() == Some(n), "shape-count", "shape_count() = {:?}, {} written", r.shape_count().ok(), n);
    let mut seq = Vec::new();
    {
        let mut it = r.iter_shapes();
        let mut remaining = n;
        loop {
            let h = it.size_hint();
            ensure!(
                h == (remaining, Some(remaining)),
                "size-hint",
                "size_hint {:?} with {} shapes still to come",
                h,
                remaining
            );
            match it.next() {
                Some(Ok(s)) => {
                    ensure!(remaining > 0, "count", "iterator yields more than {} shapes", n);
                    seq.push(view_shape(&s));
                    remaining -= 1;
                }
                Some(Err(e)) => fail!("read-error", "iteration with index: {}", err_str(&e)),
                None => break,
            }
        }
        ensure!(remaining == 0, "count", "iteration with index ended {} shapes early", remaining);
    }
    let mut r2 = open(false)?;
    let (items, over) = drain_capped(r2.iter_shapes(), n + 2);
    ensure!(!over, "count", "iteration without index yields more than {} shapes", n);
    ensure!(items.len() == n, "count", "iteration without index yields {} of {} shapes", items.len(), n);
    for (i, it) in items.iter().enumerate() {
        match it {
            Ok(s) => ensure!(view_shape(s) == seq[i], "index-vs-sequential", "shape {} differs with and without index", i),
            Err(e) => fail!("read-error", "iteration without index: {}", err_str(e)),
        }
    }
    // the Iterator adaptors (nth / skip / step_by / count / last) agree with the plain loop, with and without the index,
    // and the size hint keeps counting what is still to come after items were skipped
    let eq = |e: &Geom, g: &Geom| if e == g { Ok(()) } else { Err("differs from the plain iteration item".to_string()) };
    adaptor_routes("index/shx", || open_mem(&shp, Some(&shx[..])), &seq, eq).map_err(|(k, m)| Fail::new(if k == "shape-differs" { "index-vs-sequential" } else { &k }, m))?;
    adaptor_routes("index/noshx", || open_mem(&shp, None), &seq, eq).map_err(|(k, m)| Fail::new(if k == "shape-differs" { "index-vs-sequential" } else { &k }, m))?;
    if c.disk {
        // the files on disk read by path (BufReader<File>): sequential iteration with the .shx beside the .shp, and on a
        // copy of the .shp alone, yields the same n shapes
        let p = scratch_shp("c04", shapes.len() + c.mid_fins as usize);
        let alone = scratch_dir().join("c04-alone.shp");
        std::fs::write(&p, &shp).map_err(|e| Fail::new("harness/disk-io", e.to_string()))?;
        std::fs::write(p.with_extension("shx"), &shx).map_err(|e| Fail::new("harness/disk-io", e.to_string()))?;
        std::fs::write(&alone, &shp).map_err(|e| Fail::new("harness/disk-io", e.to_string()))?;
        let _ = std::fs::remove_file(alone.with_extension("shx"));
        for (what, path) in [("by path with the .shx", &p), ("by path, .shp alone", &alone)] {
            let mut r = shapefile::ShapeReader::from_path(path).map_err(|e| Fail::new("open-error", format!("{}: {}", what, err_str(&e))))?;
            let (items, over) = drain_capped(r.iter_shapes(), n + 2);
            ensure!(!over, "count", "iteration {} yields more than {} shapes", what, n);
            ensure!(items.len() == n, "count", "iteration {} yields {} of {} shapes", what, items.len(), n);
            for (i, it) in items.iter().enumerate() {
                match it {
                    Ok(s) => ensure!(view_shape(s) == seq[i], "index-vs-sequential", "shape {} read {} differs from the in-memory iteration", i, what),
                    Err(e) => fail!("read-error", "iteration {}: item {}: {}", what, i, err_str(e)),
                }
            }
        }
    }
    if n >= 3 {
        let mut r = open(true)?;
        let mut it = r.iter_shapes();
        let _ = it.next();
        let _ = it.nth(1);
        ensure!(it.size_hint() == (n - 3, Some(n - 3)), "size-hint", "size_hint {:?} after next() and nth(1) with {} shapes still to come", it.size_hint(), n - 3);
    }
    let mut r3 = open(true)?;
    for i in (0..n).rev().chain(0..n) {
        match r3.read_nth_shape(i) {
            Some(Ok(s)) => ensure!(
                view_shape(&s) == seq[i],
                "nth-vs-sequential",
                "read_nth_shape({}) differs from the {}-th iterated shape",
                i,
                i
            ),
            Some(Err(e)) => fail!("read-error", "read_nth_shape({}): {}", i, err_str(&e)),
            None => fail!("count", "read_nth_shape({}) is None, {} shapes written", i, n),
        }
    }
    for i in [n, n + 1, usize::MAX] {
        ensure!(r3.read_nth_shape(i).is_none(), "nth-out-of-range", "read_nth_shape({}) returns something for n = {}", i, n);
    }
    // seek(k) followed by the collecting read() returns the shapes k.. (what the iterator yields from there)
    if n >= 2 {
        let k = n / 2;
        let mut r4 = open(true)?;
        r4.seek(k).map_err(|e| Fail::new("index-vs-sequential", format!("seek({}) of {}: {}", k, n, err_str(&e))))?;
        match r4.read() {
            Ok(v) => {
                ensure!(v.len() == n - k, "count", "seek({}) then read() returns {} shapes, {} are left from there", k, v.len(), n - k);
                for (i, s) in v.iter().enumerate() {
                    ensure!(view_shape(s) == seq[k + i], "index-vs-sequential", "seek({}) then read(): item {} is not shape {}", k, i, k + i);
                }
            }
            Err(e) => fail!("read-error", "seek({}) then read(): {}", k, err_str(&e)),
        }
    }
    // the reader that served those random accesses iterates exactly as a fresh one does (with the index, and therefore
    // as the one without): random access in the middle, then the whole sequence
    for probe in [n / 2, n.saturating_sub(1)] {
        if n == 0 {
            break;
        }
        let _ = r3.read_nth_shape(probe);
        let (items, over) = drain_capped(r3.iter_shapes(), n + 2);
        ensure!(!over && items.len() == n, "count", "iteration after read_nth_shape({}) on the same reader yields {} of {} shapes", probe, items.len(), n);
        for (i, it) in items.iter().enumerate() {
            match it {
                Ok(s) => ensure!(view_shape(s) == seq[i], "index-vs-sequential", "after read_nth_shape({}) on the same reader, iterated shape {} differs from the one a fresh reader yields", probe, i),
                Err(e) => fail!("read-error", "iteration after read_nth_shape({}) on the same reader: item {}: {}", probe, i, err_str(e)),
            }
        }
    }
    Ok(())
}

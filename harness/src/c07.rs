//! C07 — reading arbitrary bytes never panics, overflows or runs forever.
//! C17 — memory requested while reading is proportional to the input size.
//! Both run the same input families through the same reader operations; C17 additionally asserts the
//! allocation bound measured by the counting allocator around every reader call.

use crate::c03::file_model;
use proptest::prelude::*;
use serde::{Deserialize, Serialize};
use vlib::exercise::{exercise, Outcome};
use vlib::gen;
use vlib::kinds::*;
use vlib::model::*;
use vlib::refcodec::{self, Field, FieldKind, FileModel};
use vlib::run::*;
use vlib::{ensure, fail};

#[derive(Serialize, Deserialize, Debug, Clone, Hash)]
pub enum Mut {
    /// overwrite the idx-th 32-bit field of the encoder's field map
    Field { idx: usize, value: i32 },
    Truncate { shx: bool, len: usize },
    /// append n bytes (seed 0 = zeros, otherwise xorshift junk)
    Extend { shx: bool, n: usize, seed: u64 },
    Flip { shx: bool, bits: Vec<u32> },
    Splice { shx: bool, from: u32, to: u32, len: u32 },
    /// declare `points` points / `parts` parts in record `rec` and make content length, header length
    /// and index entry consistent with that declaration, keeping only `keep` bytes of the record body
    Unbacked { rec: usize, points: i32, parts: i32, with_m: bool, keep: usize },
    /// declare `entries` index entries in the .shx header (consistent length field, no data behind it)
    UnbackedIndex { entries: i32 },
    /// as UnbackedIndex, and the .shp header announces a length that could hold that many records
    UnbackedBoth { entries: i32, bytes_per_record: u8 },
}

#[derive(Serialize, Deserialize, Debug, Clone, Hash)]
pub enum Base {
    Model(FileModel),
    /// unstructured bytes: prefix 0 = none, 1 = valid file code, 2 = valid 100-byte header of type `ty`
    Raw { len: usize, seed: u64, prefix: u8, ty: i32 },
}

#[derive(Serialize, Deserialize, Debug, Clone, Hash)]
pub struct ByteCase {
    pub base: Base,
    pub muts: Vec<Mut>,
}

fn xorshift(x: &mut u64) -> u64 {
    *x ^= *x << 13;
    *x ^= *x >> 7;
    *x ^= *x << 17;
    *x
}

fn junk(n: usize, seed: u64) -> Vec<u8> {
    let mut x = seed | 1;
    (0..n).map(|_| if seed == 0 { 0 } else { xorshift(&mut x) as u8 }).collect()
}

fn content_len(ty: Ty, npts: i64, nparts: i64, with_m: bool) -> Option<i64> {
    let mut b: i64 = 4 + 32 + 4 + 16 * npts;
    match ty.family() {
        Family::Multipoint => {}
        Family::Polyline | Family::Polygon => b += 4 + 4 * nparts,
        Family::Multipatch => b += 4 + 8 * nparts,
        _ => return None,
    }
    if ty.has_z() {
        b += 16 + 8 * npts;
    }
    if ty.carries_m() && with_m {
        b += 16 + 8 * npts;
    }
    Some(b)
}

pub fn materialise(c: &ByteCase) -> (Vec<u8>, Vec<u8>, bool) {
    let (mut shp, mut shx, fields, model): (Vec<u8>, Vec<u8>, Vec<Field>, Option<&FileModel>) = match &c.base {
        Base::Model(m) => {
            let e = refcodec::encode(m);
            (e.shp, e.shx, e.fields, Some(m))
        }
        Base::Raw { len, seed, prefix, ty } => {
            let mut b = junk(*len, *seed);
            match prefix {
                1 => {
                    if b.len() >= 4 {
                        b[..4].copy_from_slice(&9994i32.to_be_bytes());
                    }
                }
                2 => {
                    let h = refcodec::header_bytes(((100 + b.len()) / 2) as i32, *ty, &[F(0); 8]);
                    let mut v = h;
                    v.extend_from_slice(&b);
                    b = v;
                }
                _ => {}
            }
            let x = b.clone();
            (b, x, vec![], None)
        }
    };
    let mut unbacked = false;
    for m in &c.muts {
        match m {
            Mut::Field { idx, value } => {
                if fields.is_empty() {
                    continue;
                }
                let f = fields[idx % fields.len()];
                let tgt = if f.in_shx { &mut shx } else { &mut shp };
                if f.off + 4 <= tgt.len() {
                    refcodec::patch_field(tgt, &f, *value);
                }
            }
            Mut::Truncate { shx: on_shx, len } => {
                let t = if *on_shx { &mut shx } else { &mut shp };
                let l = (*len).min(t.len());
                t.truncate(l);
            }
            Mut::Extend { shx: on_shx, n, seed } => {
                let t = if *on_shx { &mut shx } else { &mut shp };
                t.extend(junk(*n, *seed));
            }
            Mut::Flip { shx: on_shx, bits } => {
                let t = if *on_shx { &mut shx } else { &mut shp };
                if !t.is_empty() {
                    for b in bits {
                        let pos = (*b as usize) % (t.len() * 8);
                        t[pos / 8] ^= 1 << (pos % 8);
                    }
                }
            }
            Mut::Splice { shx: on_shx, from, to, len } => {
                let t = if *on_shx { &mut shx } else { &mut shp };
                if t.len() > 1 {
                    let l = (*len as usize % 64).min(t.len());
                    let f = (*from as usize) % (t.len() - l + 1);
                    let d = (*to as usize) % (t.len() - l + 1);
                    let tmp = t[f..f + l].to_vec();
                    t[d..d + l].copy_from_slice(&tmp);
                }
            }
            Mut::Unbacked { rec, points, parts, with_m, keep } => {
                let Some(m) = model else { continue };
                if m.recs.is_empty() {
                    continue;
                }
                let ri = rec % m.recs.len();
                let ty = m.recs[ri].geom.ty;
                let Some(clen) = content_len(ty, *points as i64, *parts as i64, *with_m) else { continue };
                // locate the record's fields
                let rec_fields: Vec<&Field> = fields.iter().filter(|f| !f.in_shx).collect();
                // the ri-th RecNumber field (records are in physical == index order for these bases)
                let starts: Vec<usize> = rec_fields.iter().filter(|f| f.kind == FieldKind::RecNumber).map(|f| f.off).collect();
                let start = starts[ri];
                let words = clen / 2;
                if words > i32::MAX as i64 || clen < 0 {
                    continue;
                }
                // keep the fixed part of the body plus `keep` bytes, drop everything after
                let fixed = 8 + 4 + 32 + if ty.family() == Family::Multipoint { 4 } else { 8 };
                let end = (start + fixed + keep).min(shp.len());
                shp.truncate(end);
                if shp.len() < start + fixed {
                    continue;
                }
                shp[start + 4..start + 8].copy_from_slice(&(words as i32).to_be_bytes());
                let cpos = start + 8 + 4 + 32;
                if ty.family() == Family::Multipoint {
                    shp[cpos..cpos + 4].copy_from_slice(&points.to_le_bytes());
                } else {
                    shp[cpos..cpos + 4].copy_from_slice(&parts.to_le_bytes());
                    shp[cpos + 4..cpos + 8].copy_from_slice(&points.to_le_bytes());
                }
                let total_words = (start as i64 + 8 + clen) / 2;
                if total_words <= i32::MAX as i64 {
                    shp[24..28].copy_from_slice(&(total_words as i32).to_be_bytes());
                }
                // index: entries up to ri keep their values, entry ri gets the new length, the rest is dropped
                let xe = 100 + 8 * ri;
                if shx.len() >= xe + 8 {
                    shx[xe + 4..xe + 8].copy_from_slice(&(words as i32).to_be_bytes());
                    shx.truncate(xe + 8);
                    let xw = (shx.len() / 2) as i32;
                    shx[24..28].copy_from_slice(&xw.to_be_bytes());
                }
                unbacked = true;
            }
            Mut::UnbackedBoth { entries, bytes_per_record } => {
                if shx.len() >= 100 && shp.len() >= 100 {
                    let xw = 50i64 + 4 * *entries as i64;
                    let sw = 50i64 + (*entries as i64 * (*bytes_per_record as i64).max(12)) / 2;
                    if xw <= i32::MAX as i64 {
                        shx[24..28].copy_from_slice(&(xw as i32).to_be_bytes());
                        shp[24..28].copy_from_slice(&(sw.min(i32::MAX as i64) as i32).to_be_bytes());
                        unbacked = true;
                    }
                }
            }
            Mut::UnbackedIndex { entries } => {
                if shx.len() >= 100 {
                    let words = 50i64 + 4 * *entries as i64;
                    if words <= i32::MAX as i64 {
                        shx[24..28].copy_from_slice(&(words as i32).to_be_bytes());
                        unbacked = true;
                    }
                }
            }
        }
    }
    (shp, shx, unbacked)
}

fn check_case(c: &ByteCase, ctx: &mut Ctx, check_alloc: bool) -> Result<(), Fail> {
    let (shp, shx, unbacked) = materialise(c);
    let out = exercise(&shp, &shx, check_alloc)?;
    // one input in eight is also put on disk and opened by path
    if (shp.len() + 3 * shx.len() + c.muts.len()) % 8 == 0 {
        ctx.class("also-by-path");
        vlib::exercise::exercise_path(&shp, &shx, &crate::common::scratch_dir(), check_alloc)?;
    }
    match &out.first_item {
        None => ctx.class(if out.opened { "opened/no-item" } else { "open-error-or-empty" }),
        Some(Ok(())) => ctx.class("first-item-ok"),
        Some(Err(k)) => ctx.class(&format!("first-item-{}", k)),
    }
    for m in &c.muts {
        ctx.class(match m {
            Mut::Field { .. } => "mut:field",
            Mut::Truncate { .. } => "mut:truncate",
            Mut::Extend { .. } => "mut:extend",
            Mut::Flip { .. } => "mut:flip",
            Mut::Splice { .. } => "mut:splice",
            Mut::Unbacked { .. } => "mut:unbacked-counts",
            Mut::UnbackedIndex { .. } => "mut:unbacked-index",
            Mut::UnbackedBoth { .. } => "mut:unbacked-both-headers",
        });
    }
    if check_alloc {
        ctx.class(match out.max_ratio {
            r if r < 1.0 => "peak<1x",
            r if r < 8.0 => "peak<8x",
            r if r < 32.0 => "peak<32x",
            _ => "peak>=32x",
        });
        if unbacked {
            ctx.nontrivial();
        }
    } else if out.first_item.is_some() {
        ctx.nontrivial();
    }
    Ok(())
}

// --------------------------------------------------------------------------------------------
// generators

pub fn boundary_values(v: i32) -> Vec<i32> {
    let mut b = vec![
        0,
        1,
        -1,
        2,
        i32::MIN,
        i32::MAX,
        1 << 30,
        (1 << 30) + 1,
        (1 << 30) - 1,
        i32::MAX - 1,
        -(1 << 30),
        0x3FFF_FFFF,
        0x2000_0000,
        0x1000_0000,
        0x0FFF_FFFF,
        1 << 24,
        1 << 16,
        100,
        50,
        49,
        v.wrapping_add(1),
        v.wrapping_sub(1),
        v.wrapping_mul(2),
        v / 2,
        v.swap_bytes(),
        v.wrapping_neg(),
        v.wrapping_add(4),
        v.wrapping_sub(4),
        // aliases: counts that leave every 32-bit size computation unchanged modulo 2^32
        v.wrapping_add(1 << 28),
        v.wrapping_add(1 << 29),
        v.wrapping_add(1 << 30),
        v.wrapping_add(i32::MIN),
        v.wrapping_add(3 << 29),
    ];
    b.sort();
    b.dedup();
    b
}

fn base_models(seed: u64, per_type: usize) -> Vec<FileModel> {
    let mut v = Vec::new();
    let strat = file_model(3, 3, 4);
    let mut salt = 0u64;
    let mut per: std::collections::BTreeMap<Ty, usize> = Default::default();
    while v.len() < 14 * per_type && salt < 20_000 {
        let mut m: FileModel = sample_strategy(&strat, seed, &format!("c07-base-{}", salt));
        salt += 1;
        if m.recs.is_empty() {
            continue;
        }
        let e = per.entry(m.ty).or_insert(0);
        if *e >= per_type {
            continue;
        }
        *e += 1;
        m.trailing.clear();
        v.push(m);
    }
    v.sort_by_key(|m| m.ty);
    v
}

macro_rules! bytes_prop {
    ($name:ident, $sname:expr, $alloc:expr, $rule:expr) => {
        pub struct $name;
        impl Prop for $name {
            type Case = ByteCase;
            fn name() -> &'static str {
                $sname
            }
            fn rule() -> &'static str {
                $rule
            }
            fn check(c: &ByteCase, ctx: &mut Ctx) -> Result<(), Fail> {
                check_case(c, ctx, $alloc)
            }
        }
    };
}

const OPS: &str = "Every input runs: ShapeReader::new / with_shx, header, iter_shapes (twice on the same reader), iter_shapes_as for a matching \
    and a non-matching type, read(), read_as, read_nth_shape(i) for i in {0,1,n-1,n,usize::MAX} (every i when n<=8), seek(i) then iterate, \
    shape_count — each call under catch_unwind (overflow checks and debug assertions on) with an item cap of len(shp)/8+len(shx)/8+16 per \
    iterator; workers are supervised child processes so an abort is observed too.";

fn grid_cases(env: &Env) -> Box<dyn Iterator<Item = ByteCase>> {
    let bases = base_models(env.seed, env.pickn(4, 12));
    let mut bi = 0usize;
    let mut pending: Vec<ByteCase> = Vec::new();
    Box::new(std::iter::from_fn(move || loop {
        if let Some(c) = pending.pop() {
            return Some(c);
        }
        let m = bases.get(bi)?;
        bi += 1;
        let enc = refcodec::encode(m);
        for (idx, f) in enc.fields.iter().enumerate() {
            for v in boundary_values(f.value) {
                pending.push(ByteCase {
                    base: Base::Model(m.clone()),
                    muts: vec![Mut::Field { idx, value: v }],
                });
            }
        }
    }))
}

fn cut_cases(env: &Env) -> Box<dyn Iterator<Item = ByteCase>> {
    let bases = base_models(env.seed ^ 0x5555, env.pickn(2, 6));
    let mut bi = 0usize;
    let mut pending: Vec<ByteCase> = Vec::new();
    Box::new(std::iter::from_fn(move || loop {
        if let Some(c) = pending.pop() {
            return Some(c);
        }
        let m = bases.get(bi)?;
        bi += 1;
        let enc = refcodec::encode(m);
        for on_shx in [false, true] {
            let l = if on_shx { enc.shx.len() } else { enc.shp.len() };
            for len in 0..l {
                pending.push(ByteCase {
                    base: Base::Model(m.clone()),
                    muts: vec![Mut::Truncate { shx: on_shx, len }],
                });
            }
            for n in 1..=24 {
                for seed in [0u64, 7] {
                    pending.push(ByteCase {
                        base: Base::Model(m.clone()),
                        muts: vec![Mut::Extend { shx: on_shx, n, seed }],
                    });
                }
            }
        }
    }))
}

fn unbacked_mut(nrec_hint: usize) -> BoxedStrategy<Mut> {
    let big = prop_oneof![
        Just(i32::MAX),
        Just(1 << 30),
        Just(1 << 28),
        Just(50_000_000),
        Just(1 << 24),
        Just(1 << 20),
        1i32..100_000,
        (1i32 << 20)..i32::MAX,
    ];
    let parts = prop_oneof![3 => Just(1i32), 1 => 0i32..8, 2 => big.clone()];
    let big = prop_oneof![4 => big, 1 => (0i32..8, 1i32..8).prop_map(|(r, k)| r.wrapping_add(k << 28))];
    prop_oneof![
        6 => (0..nrec_hint.max(1), big.clone(), parts, any::<bool>(), prop_oneof![Just(0usize), 0usize..64, 64usize..4096])
            .prop_map(|(rec, points, parts, with_m, keep)| Mut::Unbacked { rec, points, parts, with_m, keep }),
        1 => big.clone().prop_map(|entries| Mut::UnbackedIndex { entries }),
        1 => (big, 12u8..64).prop_map(|(entries, bytes_per_record)| Mut::UnbackedBoth { entries, bytes_per_record }),
    ]
    .boxed()
}

fn random_cases(unbacked_only: bool) -> BoxedStrategy<ByteCase> {
    let field_mut = (any::<usize>(), prop_oneof![
        4 => (0usize..40, any::<i32>()).prop_map(|(k, v)| { let b = boundary_values(v); b[k % b.len()] }),
        1 => any::<i32>(),
    ])
        .prop_map(|(idx, value)| Mut::Field { idx: idx % 4096, value });
    let other = prop_oneof![
        2 => (any::<bool>(), 0usize..600).prop_map(|(shx, len)| Mut::Truncate { shx, len }),
        1 => (any::<bool>(), 1usize..40, any::<u64>()).prop_map(|(shx, n, seed)| Mut::Extend { shx, n, seed }),
        3 => (any::<bool>(), proptest::collection::vec(any::<u32>(), 1..8)).prop_map(|(shx, bits)| Mut::Flip { shx, bits }),
        1 => (any::<bool>(), any::<u32>(), any::<u32>(), any::<u32>()).prop_map(|(shx, from, to, len)| Mut::Splice { shx, from, to, len }),
    ];
    let model_base = file_model(4, 4, 6).prop_map(Base::Model);
    if unbacked_only {
        return (file_model(3, 3, 4), proptest::collection::vec(unbacked_mut(3), 1..3))
            .prop_map(|(mut m, muts)| {
                // the mutations need a multi-vertex record to act on: a model without one (point / null header
                // types, empty files) gets a fixed two-part PolylineZ record instead of being rejected
                if !m.recs.iter().any(|r| !matches!(r.geom.ty.family(), Family::Point | Family::Null)) {
                    let g = Geom {
                        ty: Ty::PolylineZ,
                        parts: vec![
                            Part { kind: 0, pts: vec![v4(1.0, 2.0, 3.0, 4.0), v4(2.0, 3.0, 4.0, 5.0), v4(0.5, 0.25, -1.0, 7.0)] },
                            Part { kind: 0, pts: vec![v4(-1.0, -2.0, 0.0, 1.0), v4(-2.0, -3.0, 1.0, 2.0)] },
                        ],
                        bbox: [F(0); 8],
                        m_present: true,
                    }
                    .canon_file();
                    m = vlib::refcodec::FileModel::simple(Ty::PolylineZ, vec![g]);
                }
                ByteCase { base: Base::Model(m), muts }
            })
            .boxed();
    }
    let raw = (0usize..400, any::<u64>(), 0u8..3, prop_oneof![(0usize..14).prop_map(|i| VALID_CODES[i]), any::<i32>()])
        .prop_map(|(len, seed, prefix, ty)| Base::Raw { len, seed: seed | 1, prefix, ty });
    prop_oneof![
        6 => (model_base.clone(), proptest::collection::vec(prop_oneof![3 => field_mut.clone(), 2 => other.clone()], 1..4))
            .prop_map(|(base, muts)| ByteCase { base, muts }),
        2 => (raw, proptest::collection::vec(other, 0..2)).prop_map(|(base, muts)| ByteCase { base, muts }),
        2 => (model_base, proptest::collection::vec(prop_oneof![2 => unbacked_mut(4), 1 => field_mut], 1..3))
            .prop_map(|(base, muts)| ByteCase { base, muts }),
    ]
    .boxed()
}

bytes_prop!(
    FieldGrid,
    "fieldgrid",
    false,
    "exhaustive: base files from the reference encoder (all 14 header codes, foreign layouts; 2 per type quick, 8 thorough) x EVERY \
     32-bit field of the encoder's field map (header length/version/type, record number/length/type, part and point counts, every part \
     offset, every patch kind, shx header length/type, every index offset/length) x EVERY boundary value {0,+-1,2,i32::MIN/MAX,2^30,2^30+-1, \
     2^31-2,-2^30,0x3FFFFFFF,2^29,2^28,2^24,2^16,100,50,49,f+-1,f+-4,2f,f/2,-f,byte-swapped f, f+2^28, f+2^29, f+2^30, f+2^31, f+3*2^29 \
     (the last five leave 32-bit size computations unchanged modulo 2^32)}. Non-trivial: the reader opens and a record is attempted"
);
impl EnumProp for FieldGrid {
    fn enumerate(env: &Env) -> Box<dyn Iterator<Item = ByteCase>> {
        grid_cases(env)
    }
}

bytes_prop!(
    Cuts,
    "cuts",
    false,
    "exhaustive: truncation at EVERY length and zero/junk extension by 1..24 bytes of .shp and of .shx, for base files of all 14 header codes. \
     Non-trivial: the reader opens and a record is attempted"
);
impl EnumProp for Cuts {
    fn enumerate(env: &Env) -> Box<dyn Iterator<Item = ByteCase>> {
        cut_cases(env)
    }
}

bytes_prop!(
    Mutants,
    "mutants",
    false,
    "proptest: 1-3 stacked mutations (field := boundary or arbitrary value, truncate, extend, 1-8 bit flips, splice, consistent-but-unbacked \
     counts) on generated valid files, and unstructured random bytes behind nothing / a valid file code / a valid 100-byte header. \
     Non-trivial: the reader opens and a record is attempted"
);
impl RandomProp for Mutants {
    fn strategy(_env: &Env) -> BoxedStrategy<ByteCase> {
        random_cases(false)
    }
    fn cases(env: &Env) -> u64 {
        env.n(600_000, 30_000_000)
    }
}

// C17 variants: same families with the allocation bound asserted
bytes_prop!(
    AllocGrid,
    "alloc-fieldgrid",
    true,
    "the C07 field x boundary-value grid with the allocation bound asserted around every reader call: peak live bytes requested <= 64 x \
     (len(shp)+len(shx)) + 16 KiB, measured by the harness's counting global allocator (thread-local window). Non-trivial: a declared count or \
     length not backed by data (counted for the unbacked generators only, conservatively)"
);
impl EnumProp for AllocGrid {
    fn enumerate(env: &Env) -> Box<dyn Iterator<Item = ByteCase>> {
        grid_cases(env)
    }
}
bytes_prop!(
    AllocMutants,
    "alloc-mutants",
    true,
    "the C07 random mutant family with the allocation bound asserted"
);
impl RandomProp for AllocMutants {
    fn strategy(_env: &Env) -> BoxedStrategy<ByteCase> {
        random_cases(false)
    }
    fn cases(env: &Env) -> u64 {
        env.n(200_000, 10_000_000)
    }
}
bytes_prop!(
    Unbacked,
    "alloc-unbacked",
    true,
    "proptest: consistent-but-unbacked declarations — point / part counts up to i32::MAX written into a multi-vertex record together with \
     the matching record content length, header length and index entry (with and without M block), followed by 0..4096 bytes of real data; \
     and index headers declaring up to 2^31/8 entries. Non-trivial: every case (a declared count exceeds what the bytes present can hold)"
);
impl RandomProp for Unbacked {
    fn strategy(_env: &Env) -> BoxedStrategy<ByteCase> {
        random_cases(true)
    }
    fn cases(env: &Env) -> u64 {
        env.n(200_000, 10_000_000)
    }
}

#[allow(dead_code)]
pub fn unused(_: gen::Profile) {}

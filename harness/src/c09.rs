//! C09 — any interleaving of writes and finalize calls yields the same files as drop.
//! C10 — a writer holds one shape type; a rejected write changes nothing.

use serde::{Deserialize, Serialize};
use shapefile::dbase;
use shapefile::{Error, Shape, ShapeWriter, Writer};
use std::convert::TryInto;
use vlib::gen;
use vlib::io::Dest;
use vlib::kinds::*;
use vlib::libops::*;
use vlib::model::*;
use vlib::refcodec::{self, Mode};
use vlib::run::*;
use vlib::{ensure, fail};

#[derive(Serialize, Deserialize, Debug, Clone, Copy, Hash, PartialEq, Eq)]
pub enum WOp {
    A,
    B,
    Fin,
}

#[derive(Serialize, Deserialize, Debug, Clone, Copy, Hash, PartialEq, Eq)]
pub enum Ending {
    Drop,
    FinalizeDrop,
    /// consume the writer with write_shapes over k trailing shapes (a, b, a, ...)
    WriteShapes(u8),
}

#[derive(Serialize, Deserialize, Debug, Clone, Hash)]
pub struct WHist {
    pub ty: Ty,
    pub with_shx: bool,
    pub ops: Vec<WOp>,
    pub ending: Ending,
    pub a: Geom,
    pub b: Geom,
    /// run through ShapeWriter::from_path (BufWriter<File>) and look at the files on disk
    #[serde(default)]
    pub disk: bool,
}

pub struct Interleave;

fn sample_pair(ty: Ty, seed: u64, k: usize) -> (Geom, Geom) {
    let cfg = gen::GenCfg::new(gen::Profile::NonNan, true, 3, 5);
    let a = sample_strategy(&gen::geom(ty, cfg), seed, &format!("c09-a-{}-{}", ty.name(), k));
    let mut b = sample_strategy(&gen::geom(ty, cfg), seed, &format!("c09-b-{}-{}", ty.name(), k));
    // make b's record longer than a's where the type allows it
    if ty.family() != Family::Point {
        let extra = b.parts[0].pts.clone();
        let want = a.npoints() + 1;
        while b.npoints() < want + 1 {
            let v = extra[b.npoints() % extra.len()];
            b.parts[0].pts.push(v);
        }
    }
    (a, b)
}

fn check_interleave<K: Kind>(c: &WHist, ctx: &mut Ctx) -> Result<(), Fail> {
    let a: K = K::build(&c.a, Ctor::Plain);
    let b: K = K::build(&c.b, Ctor::Plain);
    let pick = |op: WOp| if op == WOp::A { &a } else { &b };
    // reference: same shapes, no finalize, drop
    let mut written: Vec<&K> = c.ops.iter().filter(|o| **o != WOp::Fin).map(|o| pick(*o)).collect();
    if let Ending::WriteShapes(k) = c.ending {
        for i in 0..k {
            written.push(if i % 2 == 0 { &a } else { &b });
        }
    }
    let ref_shapes: Vec<K> = written.iter().map(|s| (*s).clone()).collect();
    let (ref_shp, ref_shx) = write_bytes(&ref_shapes, c.with_shx, Finish::Drop).map_err(|e| Fail::new("write-error", e))?;
    let d = refcodec::decode(&ref_shp, Mode::Strict).map_err(|e| Fail::new("reference-malformed", format!("write-and-drop output rejected: {}", e)))?;
    ensure!(d.recs.len() == ref_shapes.len(), "reference-malformed", "write-and-drop holds {} of {} shapes", d.recs.len(), ref_shapes.len());
    for (i, (r, s)) in d.recs.iter().zip(&ref_shapes).enumerate() {
        let w = crate::c02::file_view(&s.view());
        ensure!(r.geom == w, "reference-malformed", "write-and-drop record {} does not decode to the shape handed in", i);
    }

    let fin_not_last = c.ops.iter().enumerate().any(|(i, o)| *o == WOp::Fin && i + 1 < c.ops.len());
    if fin_not_last || (c.ops.contains(&WOp::Fin) && matches!(c.ending, Ending::WriteShapes(k) if k > 0)) {
        ctx.nontrivial();
    }
    if c.ops.first() == Some(&WOp::Fin) {
        ctx.class("finalize-before-first-write");
    }
    if c.ops.windows(2).any(|w| w == [WOp::Fin, WOp::Fin]) {
        ctx.class("repeated-finalize");
    }

    if c.disk {
        ctx.class("from_path");
        let dir = crate::common::scratch_dir();
        let p = crate::common::scratch_shp("c09", c.ops.len() + c.ty.code() as usize);
        let px = p.with_extension("shx");
        let mut w = ShapeWriter::from_path(&p).map_err(|e| Fail::new("write-error", err_str(&e)))?;
        let mut so_far: Vec<&K> = Vec::new();
        for (k, op) in c.ops.iter().enumerate() {
            match op {
                WOp::Fin => {
                    w.finalize().map_err(|e| Fail::new("finalize-error", format!("disk op #{}: {}", k, err_str(&e))))?;
                    // flushed: what is on disk NOW must be a complete shapefile with exactly the shapes so far
                    let now = std::fs::read(&p).map_err(|e| Fail::new("disk-io", e.to_string()))?;
                    let d = refcodec::decode(&now, Mode::Strict).map_err(|e| {
                        Fail::new("finalized-incomplete", format!("history {:?} (from_path): after finalize #{} the file on disk ({} bytes) is not a complete shapefile: {}", c.ops, k, now.len(), e))
                    })?;
                    ensure!(
                        d.recs.len() == so_far.len() && d.recs.iter().zip(&so_far).all(|(r, s)| r.geom == crate::c02::file_view(&s.view())),
                        "finalized-incomplete",
                        "history {:?} (from_path): after finalize #{} the file on disk holds {} records, {} written",
                        c.ops,
                        k,
                        d.recs.len(),
                        so_far.len()
                    );
                    let xnow = std::fs::read(&px).map_err(|e| Fail::new("disk-io", e.to_string()))?;
                    let xd = refcodec::decode_shx(&xnow).map_err(|e| Fail::new("finalized-incomplete", format!("history {:?} (from_path): .shx on disk after finalize #{}: {}", c.ops, k, e)))?;
                    ensure!(xd.entries.len() == so_far.len(), "finalized-incomplete", "history {:?} (from_path): .shx on disk has {} entries, {} written", c.ops, xd.entries.len(), so_far.len());
                }
                o => {
                    let s = pick(*o);
                    w.write_shape(s).map_err(|e| Fail::new("write-error", err_str(&e)))?;
                    so_far.push(s);
                }
            }
        }
        match c.ending {
            Ending::Drop => drop(w),
            Ending::FinalizeDrop => {
                w.finalize().map_err(|e| Fail::new("finalize-error", err_str(&e)))?;
                drop(w);
            }
            Ending::WriteShapes(k) => {
                let tail: Vec<K> = (0..k).map(|i| if i % 2 == 0 { a.clone() } else { b.clone() }).collect();
                w.write_shapes(tail.iter()).map_err(|e| Fail::new("write-error", err_str(&e)))?;
            }
        }
        // reference through the same kind of destination: from_path, write the same shapes, drop
        let rp = dir.join("c09-ref.shp");
        {
            let mut rw = ShapeWriter::from_path(&rp).map_err(|e| Fail::new("write-error", err_str(&e)))?;
            for s in &ref_shapes {
                rw.write_shape(s).map_err(|e| Fail::new("write-error", err_str(&e)))?;
            }
        }
        let ref_shp2 = std::fs::read(&rp).map_err(|e| Fail::new("disk-io", e.to_string()))?;
        let ref_shx2 = std::fs::read(rp.with_extension("shx")).map_err(|e| Fail::new("disk-io", e.to_string()))?;
        if let Err(e) = refcodec::decode(&ref_shp2, Mode::Strict) {
            fail!("reference-malformed", "from_path write-and-drop output rejected: {}", e);
        }
        let got = std::fs::read(&p).map_err(|e| Fail::new("disk-io", e.to_string()))?;
        ensure!(got == ref_shp2, "differs-from-drop", "history {:?} ending {:?} (from_path): .shp on disk differs from write-and-drop{}", c.ops, c.ending, first_diff(&got, &ref_shp2));
        let gotx = std::fs::read(&px).map_err(|e| Fail::new("disk-io", e.to_string()))?;
        ensure!(gotx == ref_shx2, "differs-from-drop", "history {:?} ending {:?} (from_path): .shx on disk differs from write-and-drop", c.ops, c.ending);
        return Ok(());
    }

    let shp = Dest::new();
    let shx = if c.with_shx { Some(Dest::new()) } else { None };
    {
        let mut w = match &shx {
            Some(x) => ShapeWriter::with_shx(shp.clone(), x.clone()),
            None => ShapeWriter::new(shp.clone()),
        };
        let mut so_far: Vec<&K> = Vec::new();
        let mut prev_fin_ok = false;
        for (k, op) in c.ops.iter().enumerate() {
            match op {
                WOp::Fin => {
                    let before = (shp.log_len(), shx.as_ref().map(|x| x.log_len()));
                    if let Err(e) = w.finalize() {
                        fail!("finalize-error", "op #{} finalize: {}", k, err_str(&e));
                    }
                    let after = (shp.log_len(), shx.as_ref().map(|x| x.log_len()));
                    if prev_fin_ok {
                        ensure!(
                            before == after,
                            "idle-finalize-io",
                            "history {:?}: finalize #{} directly after a successful finalize issued {} I/O operation(s)",
                            c.ops,
                            k,
                            after.0 - before.0 + after.1.unwrap_or(0) - before.1.unwrap_or(0)
                        );
                    }
                    // both destinations flushed and holding a complete shapefile with exactly the shapes so far
                    ensure!(shp.flushed(), "not-flushed", "history {:?}: .shp has a write after its last flush after finalize #{}", c.ops, k);
                    if let Some(x) = &shx {
                        ensure!(x.flushed(), "not-flushed", "history {:?}: .shx has a write after its last flush after finalize #{}", c.ops, k);
                    }
                    let now = shp.bytes();
                    let d = match refcodec::decode(&now, Mode::Strict) {
                        Ok(d) => d,
                        Err(e) => fail!(
                            "finalized-incomplete",
                            "history {:?}: after finalize #{} the .shp ({} bytes) is not a complete shapefile: {}",
                            c.ops,
                            k,
                            now.len(),
                            e
                        ),
                    };
                    ensure!(
                        d.recs.len() == so_far.len(),
                        "finalized-incomplete",
                        "history {:?}: after finalize #{} the .shp holds {} records, {} written",
                        c.ops,
                        k,
                        d.recs.len(),
                        so_far.len()
                    );
                    for (i, (r, s)) in d.recs.iter().zip(&so_far).enumerate() {
                        ensure!(
                            r.geom == crate::c02::file_view(&s.view()),
                            "finalized-incomplete",
                            "history {:?}: after finalize #{} record {} differs from the shape written",
                            c.ops,
                            k,
                            i
                        );
                    }
                    if let Some(x) = &shx {
                        let xb = x.bytes();
                        let xd = refcodec::decode_shx(&xb)
                            .map_err(|e| Fail::new("finalized-incomplete", format!("history {:?}: after finalize #{} the .shx is malformed: {}", c.ops, k, e)))?;
                        ensure!(
                            xd.entries.len() == d.recs.len()
                                && xd.entries.iter().zip(&d.recs).all(|(e, r)| e.0 as usize * 2 == r.offset && e.1 as usize * 2 == r.content_len),
                            "finalized-incomplete",
                            "history {:?}: after finalize #{} the .shx does not address the records",
                            c.ops,
                            k
                        );
                    }
                    prev_fin_ok = true;
                }
                o => {
                    let s = pick(*o);
                    if let Err(e) = w.write_shape(s) {
                        fail!("write-error", "op #{}: {}", k, err_str(&e));
                    }
                    so_far.push(s);
                    prev_fin_ok = false;
                }
            }
        }
        match c.ending {
            Ending::Drop => drop(w),
            Ending::FinalizeDrop => {
                if let Err(e) = w.finalize() {
                    fail!("finalize-error", "final finalize: {}", err_str(&e));
                }
                drop(w);
            }
            Ending::WriteShapes(k) => {
                let tail: Vec<K> = (0..k).map(|i| if i % 2 == 0 { a.clone() } else { b.clone() }).collect();
                if let Err(e) = w.write_shapes(tail.iter()) {
                    fail!("write-error", "write_shapes: {}", err_str(&e));
                }
            }
        }
    }
    let got_shp = shp.bytes();
    ensure!(
        got_shp == ref_shp,
        "differs-from-drop",
        "history {:?} ending {:?}: .shp has {} bytes, writing the same {} shapes and dropping gives {} bytes{}",
        c.ops,
        c.ending,
        got_shp.len(),
        ref_shapes.len(),
        ref_shp.len(),
        first_diff(&got_shp, &ref_shp)
    );
    if let Some(x) = &shx {
        let got = x.bytes();
        let want = ref_shx.unwrap();
        ensure!(
            got == want,
            "differs-from-drop",
            "history {:?} ending {:?}: .shx differs from the write-and-drop output{}",
            c.ops,
            c.ending,
            first_diff(&got, &want)
        );
    }
    Ok(())
}

fn first_diff(a: &[u8], b: &[u8]) -> String {
    match a.iter().zip(b).position(|(x, y)| x != y) {
        Some(i) => format!(" (first difference at byte {})", i),
        None => String::new(),
    }
}

impl Prop for Interleave {
    type Case = WHist;
    fn name() -> &'static str {
        "interleave"
    }
    fn rule() -> &'static str {
        "bounded-exhaustive: all sequences over {write a, write b, finalize} of length <= L (quick 6, thorough 8) x ending {drop, \
         finalize+drop, write_shapes(0), write_shapes(2)} x {with shx, without} x 13 types x 3 (thorough 6) generated shape pairs a, b per type (fixed per seed, b longer \
         than a where the type allows). Oracle: final .shp/.shx bytes == bytes of 'write the same shapes, drop' (itself \
         validated by the independent strict decoder); after every successful finalize both destinations are flushed and decode to \
         exactly the shapes written so far with a matching index; a finalize directly after a successful finalize issues no I/O; histories up to length 4 (thorough 6) also run through \
         ShapeWriter::from_path, where after every finalize the FILE ON DISK must already be complete and the final files equal the reference. \
         Non-trivial: a finalize that is not the last call before the writer goes away"
    }
    fn check(c: &WHist, ctx: &mut Ctx) -> Result<(), Fail> {
        struct F<'a>(&'a WHist, &'a mut Ctx);
        impl KindFn for F<'_> {
            type Out = Result<(), Fail>;
            fn call<K: Kind>(self) -> Self::Out
            where
                Error: From<<K as TryFrom<Shape>>::Error>,
            {
                check_interleave::<K>(self.0, self.1)
            }
        }
        dispatch(c.ty, F(c, ctx))
    }
}

struct SeqIter {
    alphabet: usize,
    len: usize,
    i: u64,
}
impl SeqIter {
    fn next_seq(&mut self, max_len: usize) -> Option<Vec<usize>> {
        loop {
            if self.len > max_len {
                return None;
            }
            let total = (self.alphabet as u64).pow(self.len as u32);
            if self.i >= total {
                self.len += 1;
                self.i = 0;
                continue;
            }
            let mut x = self.i;
            self.i += 1;
            let mut v = Vec::with_capacity(self.len);
            for _ in 0..self.len {
                v.push((x % self.alphabet as u64) as usize);
                x /= self.alphabet as u64;
            }
            return Some(v);
        }
    }
}

impl EnumProp for Interleave {
    fn enumerate(env: &Env) -> Box<dyn Iterator<Item = WHist>> {
        let max_len = env.pickn(6, 8);
        let npairs = env.pickn(3, 6);
        let disk_len = env.pickn(4, 6);
        let npairs = npairs + 1;
        let big_len = env.pickn(4, 5);
        let mut pairs: Vec<(Ty, Geom, Geom, usize)> = ALL13
            .iter()
            .flat_map(|t| {
                (0..npairs).map(move |k| {
                    let (mut a, b) = sample_pair(*t, env.seed, k);
                    if k == npairs - 1 {
                        // the last pair: `a` is made of "default" points only (x = y = z = 0, m = NO_DATA) — values a
                        // header that was never grown could be confused with
                        for p in a.parts.iter_mut() {
                            for v in p.pts.iter_mut() {
                                *v = [F::of(0.0), F::of(0.0), F::of(0.0), if t.carries_m() { F::of(NO_DATA) } else { F(0) }];
                            }
                        }
                    }
                    (*t, a, b, usize::MAX)
                })
            })
            .collect();
        for t in ALL13.iter() {
            // a pair whose `a` has NaN for every X (and, for the second variant, every coordinate): a header box that
            // never grows must not be mistaken for "nothing written yet"
            for variant in 0..2 {
                let (mut a, b) = sample_pair(*t, env.seed, 100 + variant);
                for p in a.parts.iter_mut() {
                    for v in p.pts.iter_mut() {
                        v[0] = F(f64::NAN.to_bits());
                        if variant == 1 {
                            v[1] = F(f64::NAN.to_bits());
                            if t.has_z() {
                                v[2] = F(f64::NAN.to_bits());
                            }
                            if t.carries_m() {
                                v[3] = F(f64::NAN.to_bits());
                            }
                        }
                    }
                }
                pairs.push((*t, a, b, if variant == 0 { usize::MAX } else { big_len }));
            }
            // a pair whose `b` is a record of more than 64 KiB next to a small `a` (short histories only)
            if t.family() != Family::Point {
                let (a, mut b) = sample_pair(*t, env.seed, 200);
                let extra = b.parts[0].pts.clone();
                while b.npoints() < 4400 {
                    let v = extra[b.npoints() % extra.len()];
                    b.parts[0].pts.push(v);
                }
                pairs.push((*t, a, b, big_len));
            }
        }
        let endings = [Ending::Drop, Ending::FinalizeDrop, Ending::WriteShapes(0), Ending::WriteShapes(2)];
        let mut seqs = SeqIter { alphabet: 3, len: 0, i: 0 };
        let mut pending: Vec<WHist> = Vec::new();
        Box::new(std::iter::from_fn(move || loop {
            if let Some(c) = pending.pop() {
                return Some(c);
            }
            let s = seqs.next_seq(max_len)?;
            let ops: Vec<WOp> = s.iter().map(|x| [WOp::A, WOp::B, WOp::Fin][*x]).collect();
            for (pi, (ty, a, b, max_ops)) in pairs.iter().enumerate() {
                if ops.len() > *max_ops {
                    continue;
                }
                for ending in endings {
                    for with_shx in [true, false] {
                        pending.push(WHist {
                            ty: *ty,
                            with_shx,
                            ops: ops.clone(),
                            ending,
                            a: a.clone(),
                            b: b.clone(),
                            disk: false,
                        });
                    }
                    // files on disk: histories up to disk_len, first pair of each type
                    if ops.len() <= disk_len && (pi % npairs == 0 || pi >= 13 * npairs) {
                        pending.push(WHist {
                            ty: *ty,
                            with_shx: true,
                            ops: ops.clone(),
                            ending,
                            a: a.clone(),
                            b: b.clone(),
                            disk: true,
                        });
                    }
                }
            }
        }))
    }
}

// ---------------------------------------------------------------------------------------------
// C10

#[derive(Serialize, Deserialize, Debug, Clone, Copy, Hash, PartialEq, Eq)]
pub enum TOp {
    First,
    Offered,
    Fin,
}

#[derive(Serialize, Deserialize, Debug, Clone, Hash)]
pub struct THist {
    pub first: Ty,
    pub offered: Ty,
    /// 0 = ShapeWriter with shx, 1 = ShapeWriter without shx, 2 = complete Writer (shp, shx, dbf)
    pub writer: u8,
    pub ops: Vec<TOp>,
    pub g_first: Geom,
    pub g_offered: Geom,
    /// consuming bulk call at the end: 0 = none (drop), 1 = write_shapes / write_shapes_and_records with two shapes of
    /// the offered type, 2 = with two shapes of the first type
    #[serde(default)]
    pub tail: u8,
}

pub struct OneType;

fn mismatch(e: &Error) -> Option<(Ty, Ty)> {
    match e {
        Error::MismatchShapeType { requested, actual } => Some((ty_of(*requested), ty_of(*actual))),
        _ => None,
    }
}

fn row(i: usize) -> dbase::Record {
    let mut r = dbase::Record::default();
    r.insert("idx".to_string(), dbase::FieldValue::Numeric(Some(i as f64)));
    r
}

trait AnyWriter {
    fn write(&mut self, t: Ty, g: &Geom, i: usize) -> Result<(), Error>;
    fn fin(&mut self) -> Result<(), Error>;
    /// consuming bulk write of two shapes of type t
    fn bulk(self: Box<Self>, t: Ty, g: &Geom, i: usize) -> Result<(), Error>;
}

struct BulkS<'a>(ShapeWriter<Dest>, &'a Geom);
impl KindFn for BulkS<'_> {
    type Out = Result<(), Error>;
    fn call<K: Kind>(self) -> Self::Out
    where
        Error: From<<K as TryFrom<Shape>>::Error>,
    {
        let v = vec![build_any::<K>(self.1, Ctor::Plain), build_any::<K>(self.1, Ctor::Plain)];
        self.0.write_shapes(v.iter())
    }
}
struct BulkC<'a>(Writer<Dest>, &'a Geom, usize);
impl KindFn for BulkC<'_> {
    type Out = Result<(), Error>;
    fn call<K: Kind>(self) -> Self::Out
    where
        Error: From<<K as TryFrom<Shape>>::Error>,
    {
        let v = vec![build_any::<K>(self.1, Ctor::Plain), build_any::<K>(self.1, Ctor::Plain)];
        let r = vec![row(self.2), row(self.2 + 1)];
        self.0.write_shapes_and_records(v.iter().zip(r.iter()))
    }
}

struct SW(ShapeWriter<Dest>);
struct CW(Writer<Dest>);

struct WriteOne<'a, W: ?Sized>(&'a mut W, &'a Geom, usize);
impl KindFn for WriteOne<'_, SW> {
    type Out = Result<(), Error>;
    fn call<K: Kind>(self) -> Self::Out
    where
        Error: From<<K as TryFrom<Shape>>::Error>,
    {
        self.0 .0.write_shape(&build_any::<K>(self.1, Ctor::Plain))
    }
}
impl KindFn for WriteOne<'_, CW> {
    type Out = Result<(), Error>;
    fn call<K: Kind>(self) -> Self::Out
    where
        Error: From<<K as TryFrom<Shape>>::Error>,
    {
        self.0 .0.write_shape_and_record(&build_any::<K>(self.1, Ctor::Plain), &row(self.2))
    }
}
impl AnyWriter for SW {
    fn write(&mut self, t: Ty, g: &Geom, i: usize) -> Result<(), Error> {
        dispatch(t, WriteOne(self, g, i))
    }
    fn fin(&mut self) -> Result<(), Error> {
        self.0.finalize()
    }
    fn bulk(self: Box<Self>, t: Ty, g: &Geom, _i: usize) -> Result<(), Error> {
        dispatch(t, BulkS(self.0, g))
    }
}
impl AnyWriter for CW {
    fn write(&mut self, t: Ty, g: &Geom, i: usize) -> Result<(), Error> {
        dispatch(t, WriteOne(self, g, i))
    }
    fn fin(&mut self) -> Result<(), Error> {
        Ok(())
    }
    fn bulk(self: Box<Self>, t: Ty, g: &Geom, i: usize) -> Result<(), Error> {
        dispatch(t, BulkC(self.0, g, i))
    }
}

fn make_writer(kind: u8) -> (Box<dyn AnyWriter>, Vec<Dest>) {
    let shp = Dest::new();
    match kind {
        0 => {
            let shx = Dest::new();
            (Box::new(SW(ShapeWriter::with_shx(shp.clone(), shx.clone()))), vec![shp, shx])
        }
        1 => (Box::new(SW(ShapeWriter::new(shp.clone()))), vec![shp]),
        _ => {
            let shx = Dest::new();
            let dbf = Dest::new();
            let sw = ShapeWriter::with_shx(shp.clone(), shx.clone());
            let tw = dbase::TableWriterBuilder::new()
                .add_numeric_field("idx".try_into().unwrap(), 10, 0)
                .build_with_dest(dbf.clone());
            (Box::new(CW(Writer::new(sw, tw))), vec![shp, shx, dbf])
        }
    }
}

/// kind 3: the complete Writer is built around a ShapeWriter that has already accepted one shape of the first type.
fn make_preused_writer(c: &THist) -> Result<(Box<dyn AnyWriter>, Vec<Dest>), Fail> {
    let (shp, shx, dbf) = (Dest::new(), Dest::new(), Dest::new());
    let mut sw = SW(ShapeWriter::with_shx(shp.clone(), shx.clone()));
    sw.write(c.first, &c.g_first, 0).map_err(|e| Fail::new("write-error", err_str(&e)))?;
    let tw = dbase::TableWriterBuilder::new()
        .add_numeric_field("idx".try_into().unwrap(), 10, 0)
        .build_with_dest(dbf.clone());
    Ok((Box::new(CW(Writer::new(sw.0, tw))), vec![shp, shx, dbf]))
}

/// Runs a history; returns the final bytes of every destination. With `strict`, rejected calls are
/// checked (error value, no I/O).
fn run_thist(c: &THist, ops: &[TOp], tail: u8, strict: bool, ctx: &mut Ctx) -> Result<Vec<Vec<u8>>, Fail> {
    let (mut w, dests) = if c.writer == 3 { make_preused_writer(c)? } else { make_writer(c.writer) };
    let mut file_ty: Option<Ty> = if c.writer == 3 { Some(c.first) } else { None };
    let mut seen_reject = false;
    let mut idx = 0usize;
    for (k, op) in ops.iter().enumerate() {
        match op {
            TOp::Fin => {
                if let Err(e) = w.fin() {
                    fail!("finalize-error", "history {:?} op #{}: {}", ops, k, err_str(&e));
                }
            }
            o => {
                let (t, g) = if *o == TOp::First { (c.first, &c.g_first) } else { (c.offered, &c.g_offered) };
                let expect_ok = file_ty.is_none() || file_ty == Some(t);
                let before: Vec<(usize, Vec<u8>)> = dests.iter().map(|d| (d.write_calls(), d.bytes())).collect();
                let r = w.write(t, g, idx);
                match (expect_ok, r) {
                    (true, Ok(())) => {
                        if seen_reject && strict {
                            ctx.nontrivial();
                        }
                        file_ty.get_or_insert(t);
                        idx += 1;
                    }
                    (true, Err(e)) => fail!("write-error", "history {:?} op #{}: matching write fails: {}", ops, k, err_str(&e)),
                    (false, Ok(())) => fail!(
                        "mismatch-accepted",
                        "history {:?} op #{}: a {} was accepted by a writer holding {}",
                        ops,
                        k,
                        t.name(),
                        file_ty.unwrap().name()
                    ),
                    (false, Err(e)) => {
                        seen_reject = true;
                        ensure!(
                            mismatch(&e) == Some((file_ty.unwrap(), t)),
                            "mismatch-error",
                            "history {:?} op #{}: rejected with {:?}, expected MismatchShapeType{{requested: {}, actual: {}}}",
                            ops,
                            k,
                            e,
                            file_ty.unwrap().name(),
                            t.name()
                        );
                        for (di, d) in dests.iter().enumerate() {
                            ensure!(
                                d.write_calls() == before[di].0 && d.bytes() == before[di].1,
                                "rejected-write-io",
                                "history {:?} op #{}: the rejected write issued {} write call(s) on destination {} ({})",
                                ops,
                                k,
                                d.write_calls() - before[di].0,
                                di,
                                ["shp", "shx", "dbf"][di]
                            );
                        }
                    }
                }
            }
        }
    }
    if tail != 0 {
        let (t, g) = if tail == 2 { (c.first, &c.g_first) } else { (c.offered, &c.g_offered) };
        let expect_ok = file_ty.is_none() || file_ty == Some(t);
        match (expect_ok, w.bulk(t, g, idx)) {
            (true, Ok(())) => {}
            (true, Err(e)) => fail!("write-error", "history {:?}: bulk write of the file's own type fails: {}", ops, err_str(&e)),
            (false, Ok(())) => fail!(
                "mismatch-accepted",
                "history {:?}: the consuming bulk write accepted shapes of type {} on a writer holding {}",
                ops,
                t.name(),
                file_ty.unwrap().name()
            ),
            (false, Err(e)) => ensure!(
                mismatch(&e) == Some((file_ty.unwrap(), t)),
                "mismatch-error",
                "history {:?}: bulk write rejected with {:?}, expected MismatchShapeType{{requested: {}, actual: {}}}",
                ops,
                e,
                file_ty.unwrap().name(),
                t.name()
            ),
        }
    } else {
        drop(w);
    }
    Ok(dests.iter().map(|d| d.bytes()).collect())
}

impl Prop for OneType {
    type Case = THist;
    fn name() -> &'static str {
        "onetype"
    }
    fn rule() -> &'static str {
        "bounded-exhaustive: all 13x12 ordered pairs (first type, offered type) x all sequences over {write first-type, write \
         offered-type, finalize} of length <= L (quick 6, thorough 8) x {ShapeWriter with shx, without, complete Writer with dbf, complete Writer built around a ShapeWriter that already accepted a shape} x ending {drop, consuming write_shapes / write_shapes_and_records with shapes of the offered type, of the first type}. The \
         type is fixed by the first accepted write; every later write of the other type must return MismatchShapeType{requested: file \
         type, actual: offered}, issue no write call on and leave the bytes of every destination (dbf included) unchanged, and the final files must equal \
         those of the same history with the rejected calls removed. Non-trivial: a rejected call followed by an accepted write"
    }
    fn check(c: &THist, ctx: &mut Ctx) -> Result<(), Fail> {
        let got = run_thist(c, &c.ops, c.tail, true, ctx)?;
        // same history with the rejected calls deleted
        let mut file_ty: Option<TOp> = if c.writer == 3 { Some(TOp::First) } else { None };
        let filtered: Vec<TOp> = c
            .ops
            .iter()
            .copied()
            .filter(|o| match o {
                TOp::Fin => true,
                w => {
                    if file_ty.is_none() {
                        file_ty = Some(*w);
                    }
                    file_ty == Some(*w)
                }
            })
            .collect();
        // the bulk tail is rejected when a type is already fixed and differs from the tail's type
        let tail_kind = match c.tail {
            1 => Some(TOp::Offered),
            2 => Some(TOp::First),
            _ => None,
        };
        let tail_rejected = matches!((file_ty, tail_kind), (Some(f), Some(t)) if f != t);
        let ftail = if tail_rejected { 0 } else { c.tail };
        if tail_rejected {
            ctx.class("bulk-tail-rejected");
            ctx.nontrivial();
        }
        if filtered.len() != c.ops.len() || tail_rejected {
            ctx.class("has-rejected-call");
            let mut dummy = Ctx::default();
            let want = run_thist(c, &filtered, ftail, false, &mut dummy)?;
            for (i, (g, w)) in got.iter().zip(&want).enumerate() {
                // bytes 1..4 of a .dbf header hold the date of the last update: not part of the comparison
                let (mut g, mut w) = (g.clone(), w.clone());
                if i == 2 {
                    for b in [&mut g, &mut w] {
                        for k in 1..4.min(b.len()) {
                            b[k] = 0;
                        }
                    }
                }
                let (g, w) = (&g, &w);
                ensure!(
                    g == w,
                    "differs-from-filtered",
                    "history {:?}: final {} differs from the history without the rejected calls{}",
                    c.ops,
                    ["shp", "shx", "dbf"][i],
                    first_diff(g, w)
                );
            }
        }
        Ok(())
    }
}

/// Long histories: thresholds on the number of accepted records (powers of two and their neighbours).
pub struct OneTypeLong;
impl Prop for OneTypeLong {
    type Case = THist;
    fn name() -> &'static str {
        "onetype-long"
    }
    fn rule() -> &'static str {
        "enumerated: N accepted writes for N in {1,2,...,2^k-1,2^k,2^k+1 up to 4097} U {1500,3000}, then a rejected write, then 2 accepted \
         writes (optionally a finalize right before or after the rejected call), through ShapeWriter with index and through the complete \
         Writer; same oracle as onetype (error value, no write call, final files equal to the history without the rejected call). \
         Non-trivial: every case"
    }
    fn check(c: &THist, ctx: &mut Ctx) -> Result<(), Fail> {
        ctx.nontrivial();
        OneType::check(c, ctx)
    }
}
impl EnumProp for OneTypeLong {
    fn enumerate(env: &Env) -> Box<dyn Iterator<Item = THist>> {
        let cfg = gen::GenCfg::new(gen::Profile::Small, false, 1, 2);
        let g_first = sample_strategy(&gen::geom(Ty::Point, cfg), env.seed, "c10-long-first");
        let g_off = sample_strategy(&gen::geom(Ty::Polyline, cfg), env.seed, "c10-long-off");
        let g_first_z = sample_strategy(&gen::geom(Ty::MultipointZ, cfg), env.seed, "c10-long-first-z");
        let mut ns: Vec<usize> = vec![1, 2, 3, 1500, 3000];
        let top = env.pickn(12, 13);
        for k in 2..=top {
            let p = 1usize << k;
            ns.extend([p - 1, p, p + 1]);
        }
        ns.sort();
        ns.dedup();
        let mut v = Vec::new();
        for n in ns {
            for fin_pos in 0..3u8 {
                for writer in [0u8, 2u8] {
                    if writer == 2 && (fin_pos != 0 || n > 2100) {
                        continue;
                    }
                    let mut ops = vec![TOp::First; n];
                    if fin_pos == 1 {
                        ops.push(TOp::Fin);
                    }
                    ops.push(TOp::Offered);
                    if fin_pos == 2 {
                        ops.push(TOp::Fin);
                    }
                    ops.push(TOp::First);
                    ops.push(TOp::First);
                    let (first, gf) = if n % 2 == 0 { (Ty::Point, g_first.clone()) } else { (Ty::MultipointZ, g_first_z.clone()) };
                    v.push(THist {
                        first,
                        offered: Ty::Polyline,
                        writer,
                        ops,
                        g_first: gf,
                        g_offered: g_off.clone(),
                        tail: 0,
                    });
                }
            }
        }
        Box::new(v.into_iter())
    }
}

impl EnumProp for OneType {
    fn enumerate(env: &Env) -> Box<dyn Iterator<Item = THist>> {
        let max_len = env.pickn(6, 8);
        let cfg = gen::GenCfg::new(gen::Profile::Small, false, 2, 3);
        let geoms: Vec<Geom> = ALL13
            .iter()
            .map(|t| sample_strategy(&gen::geom(*t, cfg), env.seed, &format!("c10-{}", t.name())))
            .collect();
        let mut seqs = SeqIter { alphabet: 3, len: 1, i: 0 };
        let mut pending: Vec<THist> = Vec::new();
        Box::new(std::iter::from_fn(move || loop {
            if let Some(c) = pending.pop() {
                return Some(c);
            }
            let s = seqs.next_seq(max_len)?;
            let ops: Vec<TOp> = s.iter().map(|x| [TOp::First, TOp::Offered, TOp::Fin][*x]).collect();
            // histories start with an accepted write of the first type or a finalize — except on the pre-used writer
            // (kind 3), whose type is already fixed, so that its very first call may be the rejected one
            let starts_with_offered = ops[0] == TOp::Offered;
            for (i, first) in ALL13.iter().enumerate() {
                for (j, offered) in ALL13.iter().enumerate() {
                    if i == j {
                        continue;
                    }
                    for writer in 0..4u8 {
                        if starts_with_offered && writer != 3 {
                            continue;
                        }
                        if writer >= 2 && ops.contains(&TOp::Fin) {
                            continue; // the complete Writer has no finalize
                        }
                        if writer == 3 && ops.len() > 4 {
                            continue;
                        }
                        for tail in 0..3u8 {
                            // bulk tails only on the shorter histories (they add one more call)
                            if tail != 0 && ops.len() + 1 > max_len {
                                continue;
                            }
                            // variant 0: generated shapes; 1: the offered shape holds no vertex at all (a value only reading
                            // produces) or, for point types, NaN everywhere; 2: the FIRST shape has NaN for every coordinate
                            for variant in 0..3u8 {
                                if variant != 0 && ops.len() + 2 > max_len {
                                    continue;
                                }
                                let mut g_first = geoms[i].clone();
                                let mut g_offered = geoms[j].clone();
                                let nan_all = |g: &mut Geom| {
                                    let t = g.ty;
                                    for p in g.parts.iter_mut() {
                                        for v in p.pts.iter_mut() {
                                            v[0] = F(f64::NAN.to_bits());
                                            v[1] = F(f64::NAN.to_bits());
                                            if t.has_z() {
                                                v[2] = F(f64::NAN.to_bits());
                                            }
                                            if t.carries_m() {
                                                v[3] = F(f64::NAN.to_bits());
                                            }
                                        }
                                    }
                                };
                                match variant {
                                    1 => {
                                        if offered.family() == Family::Point {
                                            nan_all(&mut g_offered);
                                        } else {
                                            g_offered = empty_geom(*offered);
                                        }
                                    }
                                    2 => nan_all(&mut g_first),
                                    _ => {}
                                }
                                pending.push(THist {
                                    first: *first,
                                    offered: *offered,
                                    writer,
                                    ops: ops.clone(),
                                    g_first,
                                    g_offered,
                                    tail,
                                });
                            }
                        }
                    }
                }
            }
        }))
    }
}

//! C11 — a crash at any point of writing never makes a reader see a wrong shape
//! (fault enumeration over crash points of generated workloads).

use proptest::prelude::*;
use serde::{Deserialize, Serialize};
use shapefile::{Error, Shape, ShapeReader, ShapeWriter};
use std::io::Cursor;
use vlib::gen;
use vlib::io::{Dest, Op};
use vlib::kinds::*;
use vlib::libops::*;
use vlib::model::*;
use vlib::run::*;
use vlib::{ensure, fail};

#[derive(Serialize, Deserialize, Debug, Clone, Copy, Hash, PartialEq, Eq)]
pub enum Step {
    Write,
    Fin,
}

#[derive(Serialize, Deserialize, Debug, Clone, Hash)]
pub struct Workload {
    pub ty: Ty,
    pub geoms: Vec<Geom>,
    /// how many finalize calls precede shape i (index n = after the last shape), usually 0 or 1
    pub fins: Vec<u8>,
    /// quick: number of sampled .shx crash states per .shp state; 0 = full cross product
    pub shx_samples: u16,
    /// the shapes after the last mid-history finalize go through the consuming `write_shapes`
    #[serde(default)]
    pub bulk: bool,
}

pub fn workload(max_shapes: usize, shx_samples: u16) -> BoxedStrategy<Workload> {
    (gen::ty13(), gen::profile_mix(), 0u8..12, 0u8..4)
        .prop_flat_map(move |(ty, p, big, bulk)| {
            let cfg = gen::GenCfg::new(p, true, 3, 5);
            // one workload in twelve carries shapes with 130-200 points in a part (block / threshold effects)
            let g = if big == 0 {
                gen::geom_sized(ty, gen::GenCfg::new(p, true, 2, 200), 1..=2, 130..=200)
            } else {
                gen::geom(ty, cfg)
            };
            // one workload in twelve writes 40-80 small shapes (the length fields then change in their higher bytes)
            let (min_n, max_n) = if big == 0 { (1, 2) } else if big == 1 { (40, 80) } else { (1, max_shapes) };
            (min_n..=max_n).prop_flat_map(move |n| {
                (
                    proptest::collection::vec(g.clone(), n),
                    proptest::collection::vec(if n > 10 { prop_oneof![30 => Just(0u8), 1 => Just(1u8)].boxed() } else { prop_oneof![5 => Just(0u8), 3 => Just(1u8), 1 => Just(2u8)].boxed() }, n + 1),
                )
                    .prop_map(move |(mut geoms, fins)| {
                        // one workload in six: every shape before the first finalize is huge (or infinite) in one dimension
                        // and the shapes after it are small there, so a later header rewrite replaces a bound by a very
                        // different bit pattern
                        if big >= 2 && big < 4 {
                            let first_fin = fins.iter().skip(1).position(|f| *f > 0).map(|p| p + 1).unwrap_or(geoms.len());
                            let dim = (geoms.len() + fins.len()) % 4;
                            let hugev = [f64::INFINITY, 1e305, f64::MAX, -1e305, f64::NEG_INFINITY, -f64::MAX][(geoms.len() * 7 + fins.len()) % 6];
                            let small = [1.5, 1.75, -1.5, 0.9375, 3.5][(fins.len() * 3) % 5];
                            let usable = dim < 2 || (dim == 2 && ty.has_z()) || (dim == 3 && ty.carries_m());
                            if usable {
                                for (i, g) in geoms.iter_mut().enumerate() {
                                    for p in g.parts.iter_mut() {
                                        for v in p.pts.iter_mut() {
                                            v[dim] = F::of(if i < first_fin { hugev } else { small });
                                        }
                                    }
                                }
                            }
                        }
                        Workload {
                            ty,
                            geoms,
                            fins,
                            shx_samples,
                            bulk: bulk == 0,
                        }
                    })
            })
        })
        .boxed()
}

pub fn steps(w: &Workload) -> Vec<Step> {
    let mut s = Vec::new();
    for i in 0..w.geoms.len() {
        for _ in 0..w.fins[i] {
            s.push(Step::Fin);
        }
        s.push(Step::Write);
    }
    for _ in 0..w.fins[w.geoms.len()] {
        s.push(Step::Fin);
    }
    s
}

/// All crash states of one op log: (complete ops, bytes of the next write that made it).
fn states(log: &[Op]) -> Vec<(usize, usize)> {
    let mut v = Vec::new();
    for i in 0..=log.len() {
        v.push((i, 0));
        if let Some(Op::Write { data, .. }) = log.get(i) {
            for c in 1..data.len() {
                v.push((i, c));
            }
        }
    }
    v
}

/// Walks the states of a log in order, keeping the persisted image up to date.
struct Imager<'a> {
    log: &'a [Op],
    done: usize,
    img: Vec<u8>,
}

impl<'a> Imager<'a> {
    fn new(log: &'a [Op]) -> Self {
        Imager {
            log,
            done: 0,
            img: Vec::new(),
        }
    }
    fn put(img: &mut Vec<u8>, pos: usize, d: &[u8]) {
        if img.len() < pos + d.len() {
            img.resize(pos + d.len(), 0);
        }
        img[pos..pos + d.len()].copy_from_slice(d);
    }
    fn at(&mut self, st: (usize, usize)) -> Vec<u8> {
        assert!(st.0 >= self.done);
        while self.done < st.0 {
            if let Op::Write { pos, data } = &self.log[self.done] {
                Self::put(&mut self.img, *pos, data);
            }
            self.done += 1;
        }
        let mut out = self.img.clone();
        if st.1 > 0 {
            if let Some(Op::Write { pos, data }) = self.log.get(st.0) {
                Self::put(&mut out, *pos, &data[..st.1]);
            }
        }
        out
    }
}

fn read_prefix<T: std::io::Read + std::io::Seek>(what: &str, r: &mut ShapeReader<T>, expect: &[Geom]) -> Result<usize, Fail> {
    let n = expect.len();
    let mut ok = 0usize;
    let mut it = r.iter_shapes();
    for i in 0..n + 2 {
        match it.next() {
            None => break,
            Some(Err(_)) => break,
            Some(Ok(s)) => {
                ensure!(i < n, "invented-shape", "{}: a {}th shape is yielded but only {} were written", what, i + 1, n);
                let v = view_shape(&s);
                if let Err(m) = same_after_read(&expect[i], &v) {
                    fail!("wrong-shape", "{}: item {} is not the {}th shape written: {}", what, i, i, m);
                }
                ok += 1;
            }
        }
    }
    Ok(ok)
}

pub struct Crash;

impl Prop for Crash {
    type Case = Workload;
    fn name() -> &'static str {
        "crash"
    }
    fn rule() -> &'static str {
        "proptest generates workloads (type, 1-5 shapes, 0-2 finalize calls before each shape and at the end, drop); one clean run on \
         logging destinations gives the op sequences; then EVERY crash state of the .shp (each op prefix x each byte cut inside the next \
         write) is crossed with crash states of the .shx (quick: 16 evenly spread + both ends; thorough: all when the product is small, \
         else 256), and EVERY .shx crash state with as many evenly spread .shp states; one workload in twelve has 130-200 points in a part, one \
         in twelve 40-80 shapes. For each persisted image pair a reader without and with index must fail to open or yield a prefix of the shapes \
         written (bit view), read_nth(i) must be None/Err or the i-th shape, never a panic; at or after the k-th completed finalize on \
         the .shp at least the shapes written before it are readable. Inner evaluations = image pairs. Non-trivial: a workload with a \
         finalize followed by further writes (cuts then fall into header rewrites with completed finalizes before them)"
    }
    fn check(w: &Workload, ctx: &mut Ctx) -> Result<(), Fail> {
        struct F<'a>(&'a Workload, &'a mut Ctx);
        impl KindFn for F<'_> {
            type Out = Result<(), Fail>;
            fn call<K: Kind>(self) -> Self::Out
            where
                Error: From<<K as TryFrom<Shape>>::Error>,
            {
                crash_k::<K>(self.0, self.1)
            }
        }
        dispatch(w.ty, F(w, ctx))
    }
}

impl RandomProp for Crash {
    fn max_shrink_iters() -> u32 {
        150
    }
    fn strategy(env: &Env) -> BoxedStrategy<Workload> {
        workload(5, if env.thorough() { 0 } else { 16 })
    }
    fn cases(env: &Env) -> u64 {
        env.n(400, 1200)
    }
}

fn crash_k<K: Kind>(w: &Workload, ctx: &mut Ctx) -> Result<(), Fail> {
    let shapes: Vec<K> = build_all(&w.geoms, Ctor::Plain);
    let expect: Vec<Geom> = views(&shapes).iter().map(expected_after_read).collect();
    let n = shapes.len();
    let st = steps(w);
    // clean run
    let shp = Dest::new();
    let shx = Dest::new();
    // (number of complete .shp ops at which a finalize had completed on the .shp, shapes written before it)
    let mut durable: Vec<(usize, usize)> = Vec::new();
    {
        let mut wr = ShapeWriter::with_shx(shp.clone(), shx.clone());
        let mut i = 0;
        // bulk route: the steps up to the last finalize that still has a write after it are issued one by one, the
        // remaining shapes are handed to the consuming write_shapes (which finalizes and drops the writer)
        let single = if w.bulk { st.iter().rposition(|s| *s == Step::Write).map(|lw| st[..lw].iter().rposition(|s| *s == Step::Fin).map(|f| f + 1).unwrap_or(0)).unwrap_or(st.len()) } else { st.len() };
        for s in &st[..single] {
            match s {
                Step::Write => {
                    wr.write_shape(&shapes[i]).map_err(|e| Fail::new("write-error", err_str(&e)))?;
                    i += 1;
                }
                Step::Fin => {
                    wr.finalize().map_err(|e| Fail::new("write-error", err_str(&e)))?;
                    durable.push((shp.log_len(), i));
                }
            }
        }
        if single < st.len() {
            ctx.class("tail-through-write_shapes");
            wr.write_shapes(shapes[i..].iter()).map_err(|e| Fail::new("write-error", format!("write_shapes: {}", err_str(&e))))?;
        } else {
            drop(wr);
        }
        durable.push((shp.log_len(), n));
    }
    let shp_log = shp.log();
    let shx_log = shx.log();
    let fin_then_write = match (st.iter().position(|s| *s == Step::Fin), st.iter().rposition(|s| *s == Step::Write)) {
        (Some(f), Some(w)) => f < w,
        _ => false,
    };
    if fin_then_write {
        ctx.nontrivial();
        ctx.class("finalize-then-more-writes");
    }
    if st.first() == Some(&Step::Fin) {
        ctx.class("finalize-before-first-write");
    }
    let shp_states = states(&shp_log);
    let shx_states = states(&shx_log);
    let full = w.shx_samples == 0 && shp_states.len() * shx_states.len() <= 600_000;
    let sample_n = if full {
        shx_states.len()
    } else if w.shx_samples == 0 {
        256
    } else {
        w.shx_samples as usize
    };
    let shx_pick: Vec<usize> = if sample_n >= shx_states.len() {
        (0..shx_states.len()).collect()
    } else {
        let mut v: Vec<usize> = (0..sample_n).map(|k| k * (shx_states.len() - 1) / (sample_n - 1).max(1)).collect();
        v.dedup();
        v
    };
    // pre-compute the sampled shx images
    let mut xi = Imager::new(&shx_log);
    let shx_images: Vec<Vec<u8>> = shx_pick.iter().map(|k| xi.at(shx_states[*k])).collect();
    ctx.class(if full { "full-cross-product" } else { "sampled-shx-states" });

    let mut si = Imager::new(&shp_log);
    let mut pairs = 0u64;
    for sst in shp_states.iter().copied() {
        let img = si.at(sst);
        let what = format!("crash after {} .shp ops + {} bytes", sst.0, sst.1);
        // without index
        let res = guard(|| -> Result<Option<usize>, Fail> {
            // the consuming route first (it must not panic either, and may only return a prefix)
            if let Ok(r2) = ShapeReader::new(Cursor::new(&img[..])) {
                if let Ok(v) = r2.read() {
                    ensure!(v.len() <= n, "invented-shape", "{}, no index: read() returns {} shapes, {} written", what, v.len(), n);
                    for (i, s) in v.iter().enumerate() {
                        if let Err(m) = same_after_read(&expect[i], &view_shape(s)) {
                            fail!("wrong-shape", "{}, no index: read() item {} is not the {}th shape written: {}", what, i, i, m);
                        }
                    }
                }
            }
            match ShapeReader::new(Cursor::new(&img[..])) {
                Err(_) => Ok(None),
                Ok(mut r) => read_prefix(&format!("{}, no index", what), &mut r, &expect).map(Some),
            }
        });
        let got = match res {
            Ok(r) => r?,
            Err(p) => fail!("panic", "{}, reader without index panics: {}", what, p),
        };
        let must = durable.iter().filter(|(ops, _)| sst.0 >= *ops).map(|(_, k)| *k).max().unwrap_or(0);
        if must > 0 || durable.iter().any(|(ops, _)| sst.0 >= *ops) {
            match got {
                None => fail!("durable-lost", "{}: a finalize had completed on the .shp but the file cannot be opened", what),
                Some(k) => ensure!(
                    k >= must,
                    "durable-lost",
                    "{}: {} shapes were written before the last completed finalize, only {} are readable",
                    what,
                    must,
                    k
                ),
            }
        }
        pairs += 1;
        for (xk, ximg) in shx_images.iter().enumerate() {
            let xst = shx_states[shx_pick[xk]];
            let what2 = format!("{} / {} .shx ops + {} bytes", what, xst.0, xst.1);
            let res = guard(|| -> Result<(), Fail> {
                match ShapeReader::with_shx(Cursor::new(&img[..]), Cursor::new(&ximg[..])) {
                    Err(_) => Ok(()),
                    Ok(mut r) => {
                        read_prefix(&format!("{}, with index", what2), &mut r, &expect)?;
                        // the consuming route (collects through size_hint): Err, or a prefix
                        if let Ok(r2) = ShapeReader::with_shx(Cursor::new(&img[..]), Cursor::new(&ximg[..])) {
                            if let Ok(v) = r2.read() {
                                ensure!(v.len() <= n, "invented-shape", "{}: read() returns {} shapes, {} written", what2, v.len(), n);
                                for (i, s) in v.iter().enumerate() {
                                    if let Err(m) = same_after_read(&expect[i], &view_shape(s)) {
                                        fail!("wrong-shape", "{}: read() item {} is not the {}th shape written: {}", what2, i, i, m);
                                    }
                                }
                            }
                        }
                        for i in 0..n + 1 {
                            match r.read_nth_shape(i) {
                                None | Some(Err(_)) => {}
                                Some(Ok(s)) => {
                                    ensure!(i < n, "invented-shape", "{}: read_nth_shape({}) yields a shape, {} written", what2, i, n);
                                    if let Err(m) = same_after_read(&expect[i], &view_shape(&s)) {
                                        fail!("wrong-shape", "{}: read_nth_shape({}) is not the shape written: {}", what2, i, m);
                                    }
                                }
                            }
                        }
                        Ok(())
                    }
                }
            });
            match res {
                Ok(r) => r?,
                Err(p) => fail!("panic", "{}, reader with index panics: {}", what2, p),
            }
            pairs += 1;
        }
    }
    // the same oracle through the path-based reader (files on disk, BufReader<File>): the states around every completed
    // finalize plus a dozen evenly spread ones, the .shp alone and next to the complete .shx
    {
        let mut picks: Vec<usize> = Vec::new();
        for (ops, _) in &durable {
            for d in [0usize, 1, 2, 5] {
                if let Some(ix) = shp_states.iter().position(|s| s.0 == ops + d && s.1 == 0) {
                    picks.push(ix);
                }
                // and a cut inside the write that follows
                if let Some(ix) = shp_states.iter().position(|s| s.0 == ops + d && s.1 == 3) {
                    picks.push(ix);
                }
            }
        }
        for k in 0..12 {
            picks.push(k * (shp_states.len() - 1) / 11);
        }
        picks.sort();
        picks.dedup();
        let dir = crate::common::scratch_dir();
        let p = dir.join("c11-crash.shp");
        let px = p.with_extension("shx");
        let full_shx = shx.bytes();
        let mut si3 = Imager::new(&shp_log);
        for ix in picks {
            let sst = shp_states[ix];
            let img = si3.at(sst);
            let must = durable.iter().filter(|(ops, _)| sst.0 >= *ops).map(|(_, k)| *k).max().unwrap_or(0);
            let any_durable = durable.iter().any(|(ops, _)| sst.0 >= *ops);
            for with_shx in [false, true] {
                std::fs::write(&p, &img).map_err(|e| Fail::new("disk-io", e.to_string()))?;
                if with_shx {
                    std::fs::write(&px, &full_shx).map_err(|e| Fail::new("disk-io", e.to_string()))?;
                } else {
                    let _ = std::fs::remove_file(&px);
                }
                let what = format!("crash after {} .shp ops + {} bytes, file on disk opened by path{}", sst.0, sst.1, if with_shx { " next to the complete .shx" } else { " (no .shx)" });
                let res = guard(|| -> Result<Option<usize>, Fail> {
                    match ShapeReader::from_path(&p) {
                        Err(_) => Ok(None),
                        Ok(mut r) => read_prefix(&what, &mut r, &expect).map(Some),
                    }
                });
                let got = match res {
                    Ok(r) => r?,
                    Err(pn) => fail!("panic", "{}: reader panics: {}", what, pn),
                };
                // the durability clause speaks about the .shp: asserted on the route that reads the .shp alone
                if !with_shx && any_durable {
                    match got {
                        None => fail!("durable-lost", "{}: a finalize had completed on the .shp but the file cannot be opened", what),
                        Some(k) => ensure!(k >= must, "durable-lost", "{}: {} shapes were written before the last completed finalize, only {} are readable", what, must, k),
                    }
                }
                pairs += 1;
            }
        }
    }
    // the transposed product: EVERY .shx crash state against a few .shp states (evenly spread, plus the complete file)
    if !full {
        let k = sample_n.max(2);
        let mut shp_pick: Vec<usize> = (0..k).map(|i| i * (shp_states.len() - 1) / (k - 1)).collect();
        shp_pick.dedup();
        let mut si2 = Imager::new(&shp_log);
        let shp_images: Vec<(usize, Vec<u8>)> = shp_pick.iter().map(|i| (*i, si2.at(shp_states[*i]))).collect();
        let mut xi2 = Imager::new(&shx_log);
        for xst in shx_states.iter().copied() {
            let ximg = xi2.at(xst);
            for (si_, img) in &shp_images {
                let sst = shp_states[*si_];
                let what2 = format!("crash after {} .shp ops + {} bytes / {} .shx ops + {} bytes", sst.0, sst.1, xst.0, xst.1);
                let res = guard(|| -> Result<(), Fail> {
                    match ShapeReader::with_shx(Cursor::new(&img[..]), Cursor::new(&ximg[..])) {
                        Err(_) => Ok(()),
                        Ok(mut r) => {
                            read_prefix(&format!("{}, with index", what2), &mut r, &expect)?;
                            Ok(())
                        }
                    }
                });
                match res {
                    Ok(r) => r?,
                    Err(p) => fail!("panic", "{}, reader with index panics: {}", what2, p),
                }
                pairs += 1;
            }
        }
    }
    ctx.evals(pairs);
    ctx.class_n("shp-crash-states", shp_states.len() as u64);
    ctx.class_n("shx-crash-states", shx_states.len() as u64);
    if n >= 40 {
        ctx.class("many-shapes-workload");
    }
    Ok(())
}

//! C06 — typed reads agree with generic reads; shape type identity is consistent.

use proptest::prelude::*;
use serde::{Deserialize, Serialize};
use shapefile::{convert_shapes_to_vec_of, Error, HasShapeType, Shape};
use vlib::gen;
use vlib::kinds::*;
use vlib::libops::*;
use vlib::model::*;
use vlib::refcodec;
use vlib::run::*;
use vlib::{ensure, fail};

#[derive(Serialize, Deserialize, Debug, Clone, Hash)]
pub struct TypedCase {
    /// actual type of the records (Null = null records written by the reference encoder)
    pub actual: Ty,
    /// header type used for null-record files
    pub null_header: Ty,
    pub n_null: usize,
    pub geoms: Vec<Geom>,
    /// a vector of shapes of mixed types for the bulk conversion clause
    pub mixed: Vec<Geom>,
}

pub struct Typed;

impl Prop for Typed {
    type Case = TypedCase;
    fn name() -> &'static str {
        "typed"
    }
    fn rule() -> &'static str {
        "proptest chooses the actual type T (14 kinds; null-record files come from the reference encoder) and 0..6 shapes; every case \
         runs the full matrix of the 13 requested types S: read_as::<S>() == convert_shapes_to_vec_of::<S>(read()) (both Ok with \
         bit-identical views, or both MismatchShapeType{requested: S, actual: T}); identity chain Shape::from(v).shapetype() == \
         K::shapetype() == record type code == types named by S2::try_from errors; K::try_from(Shape::from(v)) is the identity; bulk \
         conversion of a mixed vector fails with the error of its first mismatching element. \
         Non-trivial: n>=1 (13 of the 14 matrix cells then have S != T) — distinct by case hash"
    }
    fn check(c: &TypedCase, ctx: &mut Ctx) -> Result<(), Fail> {
        check_typed(c, ctx)
    }
}

/// The same matrix on files written by the reference encoder (layouts the library's writer never emits).
pub struct TypedForeign;
impl Prop for TypedForeign {
    type Case = vlib::refcodec::FileModel;
    fn name() -> &'static str {
        "typed-foreign"
    }
    fn rule() -> &'static str {
        "proptest: files of one concrete type from the reference encoder (zero parts, empty parts, zero points, absent M blocks, \
         24-byte PointZ, arbitrary boxes and record numbers, trailing bytes); the full 13-type request matrix as in `typed`, with \
         the generic read as the reference for values and for the type every record reports. Non-trivial: n>=1"
    }
    fn check(m: &vlib::refcodec::FileModel, ctx: &mut Ctx) -> Result<(), Fail> {
        // by path, on the same records stored in REVERSE physical order with two filler bytes between them: the generic
        // one-liner converted to the file's type equals the typed one-liner (one model in four)
        if m.ty != Ty::Null && m.recs.len() >= 2 && m.recs.iter().all(|r| r.geom.ty == m.ty) && (m.recs.len() + m.ty.code() as usize) % 4 == 0 {
            let mut lay = m.clone();
            let n = lay.recs.len();
            lay.order = (0..n).rev().collect();
            lay.fillers = (0..=n).map(|_| vec![0xEEu8; 2]).collect();
            lay.trailing.clear();
            let enc = refcodec::encode(&lay);
            let p = crate::common::scratch_dir().join("c06-layout.shp");
            std::fs::write(&p, &enc.shp).map_err(|e| Fail::new("harness/disk-io", e.to_string()))?;
            std::fs::write(p.with_extension("shx"), &enc.shx).map_err(|e| Fail::new("harness/disk-io", e.to_string()))?;
            struct ByPath<'a>(&'a std::path::Path);
            impl KindFn for ByPath<'_> {
                type Out = Result<(), Fail>;
                fn call<K: Kind>(self) -> Self::Out
                where
                    Error: From<<K as TryFrom<Shape>>::Error>,
                {
                    let generic = shapefile::read_shapes(self.0).map_err(|e| Fail::new("read-error", format!("read_shapes(path) on a reverse-ordered file: {}", err_str(&e))))?;
                    let typed = shapefile::read_shapes_as::<_, K>(self.0).map_err(|e| Fail::new("read-error", format!("read_shapes_as(path) on a reverse-ordered file: {}", err_str(&e))))?;
                    let conv = convert_shapes_to_vec_of::<K>(generic).map_err(|e| Fail::new("convert-error", format!("{:?}", e)))?;
                    ensure!(conv.len() == typed.len(), "typed-vs-generic", "by path, reverse-ordered file: read_shapes gives {} shapes, read_shapes_as {}", conv.len(), typed.len());
                    for (i, (a, b)) in conv.iter().zip(typed.iter()).enumerate() {
                        ensure!(a.view() == b.view(), "typed-vs-generic", "by path, reverse-ordered file: shape {} of read_shapes (converted) differs from shape {} of read_shapes_as", i, i);
                    }
                    Ok(())
                }
            }
            dispatch(m.ty, ByPath(&p))?;
            ctx.class("by-path-reverse-layout");
        }

        let enc = refcodec::encode(m);
        let n = m.recs.len();
        if n >= 1 {
            ctx.nontrivial();
        }
        ctx.class(&format!("actual={}", m.ty.name()));
        let generic = open_mem(&enc.shp, None)
            .and_then(|r| r.read())
            .map_err(|e| Fail::new("read-error", format!("generic read: {}", err_str(&e))))?;
        ensure!(generic.len() == n, "count", "generic read returns {} of {} records", generic.len(), n);
        for (i, s) in generic.iter().enumerate() {
            ensure!(
                variant_ty(s) == m.ty && ty_of(s.shapetype()) == m.ty,
                "generic-shapetype",
                "record {} ({}) of a {} file read as variant {:?} reporting {:?}",
                i,
                m.recs[i].geom.short(),
                m.ty.name(),
                variant_ty(s),
                s.shapetype()
            );
        }
        let gviews = shape_views(&generic);
        for s_ty in ALL13 {
            dispatch(
                s_ty,
                Cell {
                    shp: &enc.shp,
                    shx: &enc.shx,
                    actual: m.ty,
                    n,
                    generic: &gviews,
                    mixed: &[],
                },
            )?;
        }
        Ok(())
    }
}
impl RandomProp for TypedForeign {
    fn strategy(_env: &Env) -> BoxedStrategy<vlib::refcodec::FileModel> {
        crate::c03::file_model(4, 4, 5)
            .prop_map(|mut m| {
                if m.ty == Ty::Null {
                    // a null-typed file has no typed reading: use a fixed one-point file instead of rejecting the draw
                    m = vlib::refcodec::FileModel::simple(
                        Ty::Point,
                        vec![Geom { ty: Ty::Point, parts: vec![Part { kind: 0, pts: vec![v4(1.5, -2.5, 0.0, 0.0)] }], bbox: [F(0); 8], m_present: false }.canon_file()],
                    );
                }
                m.recs.retain(|r| r.geom.ty != Ty::Null);
                m
            })
            .boxed()
    }
    fn cases(env: &Env) -> u64 {
        env.n(13 * 1500, 13 * 60_000)
    }
}

impl RandomProp for Typed {
    fn strategy(_env: &Env) -> BoxedStrategy<TypedCase> {
        let cfg = |p| gen::GenCfg::new(p, true, 4, 8);
        (0usize..14, gen::profile_mix(), 0usize..14, 0usize..6)
            .prop_flat_map(move |(ti, p, nh, n_null)| {
                let actual = ALL14[ti];
                let g = if actual == Ty::Null {
                    Just(vec![]).boxed()
                } else {
                    gen::svec(gen::geom(actual, cfg(p)), 0, 6)
                };
                let mixed = proptest::collection::vec(gen::ty13().prop_flat_map(move |t| gen::geom(t, cfg(gen::Profile::Small))), 0..5);
                (g, mixed).prop_map(move |(geoms, mixed)| TypedCase {
                    actual,
                    null_header: ALL14[nh],
                    n_null,
                    geoms,
                    mixed,
                })
            })
            .boxed()
    }
    fn cases(env: &Env) -> u64 {
        env.n(14 * 3000, 14 * 100_000)
    }
}

/// The Display text of a mismatch error: if it contains the words "requested" and "actual" and the display names of both
/// types (as whole words, the two names different), the name closest to "requested" is S's and the name closest to "actual"
/// is T's. Any other wording is not judged.
fn mismatch_text_ok(e: &Error) -> Result<(), String> {
    let (req, act) = match e {
        Error::MismatchShapeType { requested, actual } => (requested.to_string(), actual.to_string()),
        _ => return Ok(()),
    };
    if req == act {
        return Ok(());
    }
    let text = e.to_string();
    let lower = text.to_lowercase();
    // whole-word occurrences (start offsets)
    let words = |hay: &str, w: &str| -> Vec<usize> {
        let b = hay.as_bytes();
        hay.match_indices(w)
            .filter(|(i, _)| {
                let before = *i == 0 || !b[*i - 1].is_ascii_alphanumeric();
                let after = *i + w.len() >= b.len() || !b[*i + w.len()].is_ascii_alphanumeric();
                before && after
            })
            .map(|(i, _)| i)
            .collect()
    };
    let (wr, wa) = (words(&lower, "requested"), words(&lower, "actual"));
    let (nr, na) = (words(&text, &req), words(&text, &act));
    if wr.len() != 1 || wa.len() != 1 || nr.len() != 1 || na.len() != 1 {
        return Ok(());
    }
    let d = |a: usize, b: usize| if a > b { a - b } else { b - a };
    let near = |w: usize| -> Option<bool> {
        // Some(true): the requested type's name is strictly closer to the word at w
        let (x, y) = (d(w, nr[0]), d(w, na[0]));
        if x == y { None } else { Some(x < y) }
    };
    match (near(wr[0]), near(wa[0])) {
        (Some(true), Some(false)) | (None, _) | (_, None) => Ok(()),
        _ => Err(format!("the message {:?} attaches \"requested\" / \"actual\" to the wrong types (requested {}, actual {})", text, req, act)),
    }
}

fn mismatch_of(e: &Error) -> Option<(Ty, Ty)> {
    match e {
        Error::MismatchShapeType { requested, actual } => Some((ty_of(*requested), ty_of(*actual))),
        _ => None,
    }
}

fn shape_from_geom(g: &Geom) -> Shape {
    struct B<'a>(&'a Geom);
    impl KindFn for B<'_> {
        type Out = Shape;
        fn call<K: Kind>(self) -> Shape
        where
            Error: From<<K as TryFrom<Shape>>::Error>,
        {
            K::build(self.0, Ctor::Plain).into()
        }
    }
    dispatch(g.ty, B(g))
}

/// One cell of the matrix: requested type S against a file whose records have type `actual`.
struct Cell<'a> {
    shp: &'a [u8],
    shx: &'a [u8],
    actual: Ty,
    n: usize,
    generic: &'a [Geom],
    mixed: &'a [Geom],
}

impl KindFn for Cell<'_> {
    type Out = Result<(), Fail>;
    fn call<S: Kind>(self) -> Self::Out
    where
        Error: From<<S as TryFrom<Shape>>::Error>,
    {
        let s_ty = S::TY;
        ensure!(
            ty_of(<S as HasShapeType>::shapetype()) == s_ty,
            "static-type",
            "{}::shapetype() = {:?}",
            s_ty.name(),
            <S as HasShapeType>::shapetype()
        );
        for with_shx in [false, true] {
            let open = || open_mem(self.shp, if with_shx { Some(self.shx) } else { None }).map_err(|e| Fail::new("open-error", err_str(&e)));
            let typed = open()?.read_as::<S>();
            let generic = open()?.read().map_err(|e| Fail::new("read-error", format!("generic read: {}", err_str(&e))))?;
            ensure!(generic.len() == self.n, "count", "generic read returns {} of {} records", generic.len(), self.n);
            let converted = convert_shapes_to_vec_of::<S>(generic);
            match (&typed, &converted) {
                (Ok(a), Ok(b)) => {
                    ensure!(
                        s_ty == self.actual || self.n == 0,
                        "wrong-type-accepted",
                        "file of {} read as {} succeeds ({} shapes)",
                        self.actual.name(),
                        s_ty.name(),
                        a.len()
                    );
                    ensure!(a.len() == b.len() && a.len() == self.n, "count", "typed {} / converted {} / written {}", a.len(), b.len(), self.n);
                    for i in 0..a.len() {
                        let (va, vb) = (a[i].view(), b[i].view());
                        ensure!(va == vb, "typed-vs-generic", "record {}: typed read and converted generic read differ", i);
                        ensure!(va == self.generic[i], "typed-vs-generic", "record {}: typed read differs from the generic view", i);
                    }
                }
                (Err(ea), Err(eb)) => {
                    for e in [ea, eb] {
                        if let Err(m) = mismatch_text_ok(e) {
                            fail!("typed-error-text", "file of {} requested as {}: {}", self.actual.name(), s_ty.name(), m);
                        }
                    }
                    let (ma, mb) = (mismatch_of(ea), mismatch_of(eb));
                    ensure!(
                        ma == Some((s_ty, self.actual)),
                        "typed-error",
                        "read_as::<{}> on a {} file: {:?}, expected MismatchShapeType{{requested: {}, actual: {}}}",
                        s_ty.name(),
                        self.actual.name(),
                        ea,
                        s_ty.name(),
                        self.actual.name()
                    );
                    ensure!(
                        mb == Some((s_ty, self.actual)),
                        "convert-error",
                        "convert_shapes_to_vec_of::<{}> on {} shapes: {:?}",
                        s_ty.name(),
                        self.actual.name(),
                        eb
                    );
                    ensure!(s_ty != self.actual && self.n > 0, "right-type-rejected", "matching typed read fails: {:?}", ea);
                }
                (a, b) => fail!(
                    "typed-generic-disagree",
                    "file of {} x{} requested as {}: read_as is {}, read+convert is {}",
                    self.actual.name(),
                    self.n,
                    s_ty.name(),
                    if a.is_ok() { "Ok".to_string() } else { format!("{:?}", a.as_ref().err().unwrap()) },
                    if b.is_ok() { "Ok".to_string() } else { format!("{:?}", b.as_ref().err().unwrap()) }
                ),
            }
            // the complete reader's typed routes (shape + attribute row): same verdict, same shapes
            if self.n <= 64 {
                use shapefile::dbase;
                let dbf = dbf_with_rows(self.n);
                let mk = || -> Result<shapefile::Reader<std::io::Cursor<Vec<u8>>, std::io::Cursor<Vec<u8>>>, Fail> {
                    let dr = dbase::Reader::new(std::io::Cursor::new(dbf.clone())).map_err(|e| Fail::new("open-error", format!("dbf: {:?}", e)))?;
                    Ok(shapefile::Reader::new(open()?, dr))
                };
                let all = mk()?.read_as::<S, dbase::Record>();
                let mut rd = mk()?;
                let first = rd.iter_shapes_and_records_as::<S, dbase::Record>().next();
                match (&all, &typed) {
                    (Ok(a), Ok(b)) => {
                        ensure!(a.len() == b.len(), "count", "Reader::read_as::<{}> returns {} pairs, ShapeReader::read_as {} shapes", s_ty.name(), a.len(), b.len());
                        for (i, ((x, _), y)) in a.iter().zip(b.iter()).enumerate() {
                            ensure!(x.view() == y.view(), "typed-vs-generic", "Reader::read_as::<{}>: pair {} holds another shape than ShapeReader::read_as", s_ty.name(), i);
                        }
                    }
                    (Err(ea), Err(_)) => ensure!(
                        mismatch_of(ea) == Some((s_ty, self.actual)),
                        "typed-error",
                        "Reader::read_as::<{}> on a {} file: {:?}",
                        s_ty.name(),
                        self.actual.name(),
                        ea
                    ),
                    (a, b) => fail!(
                        "typed-generic-disagree",
                        "file of {} x{} requested as {}: Reader::read_as is {}, ShapeReader::read_as is {}",
                        self.actual.name(),
                        self.n,
                        s_ty.name(),
                        if a.is_ok() { "Ok" } else { "Err" },
                        if b.is_ok() { "Ok" } else { "Err" }
                    ),
                }
                // the same comparison on readers POSITIONED first (seek(k) with the index; one pair consumed without it):
                // the typed bulk read and the generic bulk read start from the same place
                if self.n >= 2 {
                    let k = self.n / 2;
                    let position = |rd: &mut shapefile::Reader<std::io::Cursor<Vec<u8>>, std::io::Cursor<Vec<u8>>>| -> Result<(), Fail> {
                        if with_shx {
                            rd.seek(k).map_err(|e| Fail::new("seek-error", err_str(&e)))
                        } else {
                            for _ in 0..k {
                                let _ = rd.iter_shapes_and_records().next();
                            }
                            Ok(())
                        }
                    };
                    let (mut a, mut b) = (mk()?, mk()?);
                    position(&mut a)?;
                    position(&mut b)?;
                    let typed_tail = a.read_as::<S, dbase::Record>();
                    let generic_tail = b.read();
                    if let (Ok(t), Ok(g)) = (&typed_tail, &generic_tail) {
                        ensure!(
                            t.len() == g.len(),
                            "typed-vs-generic",
                            "after positioning the complete reader at pair {} of {}: read_as::<{}> returns {} pairs, read() returns {}",
                            k,
                            self.n,
                            s_ty.name(),
                            t.len(),
                            g.len()
                        );
                        for (i, ((x, _), (y, _))) in t.iter().zip(g.iter()).enumerate() {
                            ensure!(x.view() == view_shape(y), "typed-vs-generic", "after positioning at pair {}: typed pair {} holds another shape than the generic one", k, i);
                        }
                    }
                    if s_ty == self.actual {
                        ensure!(typed_tail.is_ok() == generic_tail.is_ok(), "typed-generic-disagree", "after positioning at pair {}: read_as is {}, read() is {}", k, if typed_tail.is_ok() { "Ok" } else { "Err" }, if generic_tail.is_ok() { "Ok" } else { "Err" });
                    }
                }
                match first {
                    None => ensure!(self.n == 0, "count", "iter_shapes_and_records_as yields nothing for {} records", self.n),
                    Some(Ok((v, _))) => ensure!(
                        self.n > 0 && s_ty == self.actual && v.view() == self.generic[0],
                        "wrong-type-yielded",
                        "iter_shapes_and_records_as::<{}> yields a value that is not record 0 of the {} file",
                        s_ty.name(),
                        self.actual.name()
                    ),
                    Some(Err(e)) => ensure!(
                        self.n > 0 && s_ty != self.actual && mismatch_of(&e) == Some((s_ty, self.actual)),
                        "typed-error",
                        "iter_shapes_and_records_as::<{}> on a {} file: {:?}",
                        s_ty.name(),
                        self.actual.name(),
                        e
                    ),
                }
            }
            // skip / step_by / nth on the typed iterator: what they yield is the converted generic read, sliced the same way
            if s_ty == self.actual && self.n >= 2 {
                let want = |idx: &[usize], got: Vec<Result<S, Error>>, what: String| -> Result<(), Fail> {
                    ensure!(got.len() == idx.len(), "typed-vs-generic", "{}: {} items, the generic read sliced the same way has {}", what, got.len(), idx.len());
                    for (j, (g, i)) in got.iter().zip(idx).enumerate() {
                        match g {
                            Ok(v) => ensure!(v.view() == self.generic[*i], "typed-vs-generic", "{}: item {} is not record {} of the generic read", what, j, i),
                            Err(e) => fail!("typed-vs-generic", "{}: item {} is {:?}; the generic read converts record {} without error", what, j, e, i),
                        }
                    }
                    Ok(())
                };
                for k in [1, self.n / 2, self.n - 1] {
                    let idx: Vec<usize> = (k..self.n).collect();
                    let got: Vec<Result<S, Error>> = open()?.iter_shapes_as::<S>().skip(k).collect();
                    want(&idx, got, format!("iter_shapes_as::<{}>().skip({}) (index: {})", s_ty.name(), k, with_shx))?;
                    let mut r = open()?;
                    let mut it = r.iter_shapes_as::<S>();
                    let mut got: Vec<Result<S, Error>> = it.nth(k).into_iter().collect();
                    got.extend(it);
                    want(&idx, got, format!("iter_shapes_as::<{}>().nth({}) then the rest (index: {})", s_ty.name(), k, with_shx))?;
                }
                let idx: Vec<usize> = (0..self.n).step_by(2).collect();
                let got: Vec<Result<S, Error>> = open()?.iter_shapes_as::<S>().step_by(2).collect();
                want(&idx, got, format!("iter_shapes_as::<{}>().step_by(2) (index: {})", s_ty.name(), with_shx))?;
                // last() / count(): the other consuming methods an iterator may override; on a fresh reader and after a
                // partial pass through the same iterator they answer what the converted generic read answers
                for k in [0, 1, self.n - 1, self.n] {
                    let mut r = open()?;
                    let mut it = r.iter_shapes_as::<S>();
                    for _ in 0..k {
                        let _ = it.next();
                    }
                    let got: Vec<Result<S, Error>> = it.last().into_iter().collect();
                    let idx: Vec<usize> = if k < self.n { vec![self.n - 1] } else { vec![] };
                    want(&idx, got, format!("iter_shapes_as::<{}>(): {} next() calls then last() (index: {})", s_ty.name(), k, with_shx))?;
                    let mut r = open()?;
                    let mut it = r.iter_shapes_as::<S>();
                    for _ in 0..k {
                        let _ = it.next();
                    }
                    let c = it.count();
                    ensure!(c == self.n - k, "typed-vs-generic", "iter_shapes_as::<{}>(): {} next() calls then count() = {}, the generic read has {} records left (index: {})", s_ty.name(), k, c, self.n - k, with_shx);
                }
            }
            // random access done generically on one reader and typed on another: the same shape, and whatever is read in
            // bulk afterwards (typed on both) is the same too
            if with_shx && s_ty == self.actual && self.n >= 2 {
                for k in [0, self.n / 2, self.n - 1] {
                    let (mut a, mut b) = (open()?, open()?);
                    let ga = a.read_nth_shape(k);
                    let tb = b.read_nth_shape_as::<S>(k);
                    match (&ga, &tb) {
                        (Some(Ok(x)), Some(Ok(y))) => ensure!(view_shape(x) == y.view(), "typed-vs-generic", "read_nth_shape({}) and read_nth_shape_as::<{}>({}) return different shapes", k, s_ty.name(), k),
                        (x, y) => fail!(
                            "typed-generic-disagree",
                            "record {} of {} ({}): read_nth_shape is {}, read_nth_shape_as::<{}> is {}",
                            k,
                            self.n,
                            self.actual.name(),
                            match x { Some(Ok(_)) => "Some(Ok)", Some(Err(_)) => "Some(Err)", None => "None" },
                            s_ty.name(),
                            match y { Some(Ok(_)) => "Some(Ok)", Some(Err(_)) => "Some(Err)", None => "None" }
                        ),
                    }
                    let (ra, rb) = (a.read_as::<S>(), b.read_as::<S>());
                    match (&ra, &rb) {
                        (Ok(x), Ok(y)) => {
                            ensure!(
                                x.len() == y.len(),
                                "typed-vs-generic",
                                "read_as::<{}> after the generic read_nth_shape({}) returns {} shapes, after the typed read_nth_shape_as({}) {} shapes (file of {})",
                                s_ty.name(),
                                k,
                                x.len(),
                                k,
                                y.len(),
                                self.n
                            );
                            for (i, (u, v)) in x.iter().zip(y.iter()).enumerate() {
                                ensure!(u.view() == v.view(), "typed-vs-generic", "read_as::<{}> after generic / typed random access at {}: shape {} differs", s_ty.name(), k, i);
                            }
                        }
                        (x, y) => ensure!(x.is_ok() == y.is_ok(), "typed-generic-disagree", "read_as::<{}> after generic random access at {} is {}, after typed random access {}", s_ty.name(), k, if x.is_ok() { "Ok" } else { "Err" }, if y.is_ok() { "Ok" } else { "Err" }),
                    }
                }
            }
            // iterator form: never yields a value of the wrong type (stop at the first error: what an
            // iterator does after an error is C07's subject)
            let mut r = open()?;
            let mut it = r.iter_shapes_as::<S>();
            for i in 0..self.n + 1 {
                match it.next() {
                    None => {
                        ensure!(i == self.n, "count", "iter_shapes_as ends after {} of {} records", i, self.n);
                        break;
                    }
                    Some(Ok(v)) => ensure!(
                        i < self.n && s_ty == self.actual && v.view() == self.generic[i],
                        "wrong-type-yielded",
                        "iter_shapes_as::<{}> yields a value for a {} record (item {})",
                        s_ty.name(),
                        self.actual.name(),
                        i
                    ),
                    Some(Err(e)) => {
                        ensure!(
                            i < self.n && mismatch_of(&e) == Some((s_ty, self.actual)),
                            "typed-error",
                            "iter_shapes_as::<{}> item {}: {:?}",
                            s_ty.name(),
                            i,
                            e
                        );
                        break;
                    }
                }
            }
            drop(it);
            // "try as S, then fall back": whatever is read next on the SAME reader never yields a value of a type the
            // file does not hold, and a mismatch error still names (S, T)
            for attempt in 0..2 {
                let mut it = r.iter_shapes_as::<S>();
                for _ in 0..self.n + 1 {
                    match it.next() {
                        None => break,
                        Some(Ok(v)) => ensure!(
                            s_ty == self.actual && self.generic.contains(&v.view()),
                            "wrong-type-yielded",
                            "after a failed typed read, iter_shapes_as::<{}> on the same reader (attempt {}) yields a value for a {} file",
                            s_ty.name(),
                            attempt,
                            self.actual.name()
                        ),
                        Some(Err(e)) => {
                            if let Some(m) = mismatch_of(&e) {
                                ensure!(
                                    m == (s_ty, self.actual),
                                    "typed-error",
                                    "after a failed typed read, iter_shapes_as::<{}> on the same reader reports {:?} for a {} file",
                                    s_ty.name(),
                                    e,
                                    self.actual.name()
                                );
                            }
                            break;
                        }
                    }
                }
            }
            // and the generic fallback on the same reader only yields shapes of the file's type
            let mut it = r.iter_shapes();
            for _ in 0..self.n + 1 {
                match it.next() {
                    None | Some(Err(_)) => break,
                    Some(Ok(s)) => ensure!(
                        variant_ty(&s) == self.actual && self.generic.contains(&view_shape(&s)),
                        "wrong-type-yielded",
                        "after a failed typed read as {}, iter_shapes on the same reader yields a {:?} from a {} file",
                        s_ty.name(),
                        variant_ty(&s),
                        self.actual.name()
                    ),
                }
            }
            if !with_shx && self.n > 0 {
                // without an index random access is refused today; whatever it does, the typed call must agree with the
                // generic call on the same record: both refused, or typed == converted generic, or the (S, T) mismatch
                for k in [self.n - 1, 0] {
                    let generic = open()?.read_nth_shape(k);
                    let typed = open()?.read_nth_shape_as::<S>(k);
                    match (generic, typed) {
                        (Some(Err(_)), Some(Err(_))) => {}
                        (Some(Ok(g)), Some(Ok(v))) => ensure!(
                            s_ty == self.actual && view_shape(&g) == v.view(),
                            "typed-vs-generic",
                            "no index: read_nth_shape_as::<{}>({}) and read_nth_shape({}) return different shapes",
                            s_ty.name(),
                            k,
                            k
                        ),
                        (Some(Ok(g)), Some(Err(e))) => ensure!(
                            s_ty != self.actual && mismatch_of(&e) == Some((s_ty, variant_ty(&g))),
                            "typed-error",
                            "no index: read_nth_shape({}) yields a {:?}, read_nth_shape_as::<{}>({}) fails with {:?}",
                            k,
                            variant_ty(&g),
                            s_ty.name(),
                            k,
                            e
                        ),
                        (g, t) => fail!(
                            "typed-generic-disagree",
                            "no index: read_nth_shape({}) is {}, read_nth_shape_as::<{}>({}) is {}",
                            k,
                            match &g { None => "None".to_string(), Some(Ok(x)) => format!("a {:?}", variant_ty(x)), Some(Err(e)) => format!("{:?}", e) },
                            s_ty.name(),
                            k,
                            match &t { None => "None".to_string(), Some(Ok(_)) => "a value".to_string(), Some(Err(e)) => format!("{:?}", e) }
                        ),
                    }
                }
            }
            if with_shx && self.n > 0 {
                // random access, repeated on ONE reader: a typed access (matching or not) is followed by the same typed
                // access again, by the generic access, and by the typed access once more — a failed typed read must not
                // change what the next access to the same (or another) record returns
                let mut r = open()?;
                let mut ks = vec![self.n - 1, 0, self.n / 2, self.n - 1];
                ks.dedup();
                for k in ks {
                    for round in 0..3 {
                        match r.read_nth_shape_as::<S>(k) {
                            Some(Ok(v)) => ensure!(
                                s_ty == self.actual && v.view() == self.generic[k],
                                "wrong-type-yielded",
                                "read_nth_shape_as::<{}>({}) (call {} on the same reader) yields a value that is not record {} of the {} file",
                                s_ty.name(),
                                k,
                                round,
                                k,
                                self.actual.name()
                            ),
                            Some(Err(e)) => ensure!(
                                s_ty != self.actual && mismatch_of(&e) == Some((s_ty, self.actual)),
                                "typed-error",
                                "read_nth_shape_as::<{}>({}) (call {} on the same reader) on a {} file: {:?}",
                                s_ty.name(),
                                k,
                                round,
                                self.actual.name(),
                                e
                            ),
                            None => fail!("count", "read_nth_shape_as({}) is None", k),
                        }
                        if round == 1 {
                            match r.read_nth_shape(k) {
                                Some(Ok(g)) => ensure!(
                                    variant_ty(&g) == self.actual && view_shape(&g) == self.generic[k],
                                    "typed-vs-generic",
                                    "read_nth_shape({}) after read_nth_shape_as::<{}>({}) on the same reader is not record {} of the {} file (got a {:?})",
                                    k,
                                    s_ty.name(),
                                    k,
                                    k,
                                    self.actual.name(),
                                    variant_ty(&g)
                                ),
                                Some(Err(e)) => fail!("typed-vs-generic", "read_nth_shape({}) after read_nth_shape_as::<{}>({}) on the same reader fails: {:?}", k, s_ty.name(), k, e),
                                None => fail!("count", "read_nth_shape({}) is None", k),
                            }
                        }
                    }
                    // seek(k) after the typed accesses, then the typed iterator: starts at record k
                    if r.seek(k).is_ok() {
                        match r.iter_shapes_as::<S>().next() {
                            Some(Ok(v)) => ensure!(
                                s_ty == self.actual && v.view() == self.generic[k],
                                "wrong-type-yielded",
                                "seek({}) after typed accesses, then iter_shapes_as::<{}>: first item is not record {} of the {} file",
                                k,
                                s_ty.name(),
                                k,
                                self.actual.name()
                            ),
                            Some(Err(e)) => ensure!(
                                s_ty != self.actual && mismatch_of(&e) == Some((s_ty, self.actual)),
                                "typed-error",
                                "seek({}) after typed accesses, then iter_shapes_as::<{}> on a {} file: {:?}",
                                k,
                                s_ty.name(),
                                self.actual.name(),
                                e
                            ),
                            None => fail!("count", "seek({}) then iter_shapes_as yields nothing, {} records", k, self.n),
                        }
                    } else {
                        fail!("seek-error", "seek({}) fails on a file of {} records", k, self.n);
                    }
                }
            }
        }
        // bulk conversion of a mixed vector: error of the first mismatching element
        let shapes: Vec<Shape> = self.mixed.iter().map(shape_from_geom).collect();
        let first_bad = self.mixed.iter().find(|g| g.ty != s_ty).map(|g| g.ty);
        match (convert_shapes_to_vec_of::<S>(shapes), first_bad) {
            (Ok(v), None) => ensure!(v.len() == self.mixed.len(), "bulk-count", "bulk conversion returns {} of {}", v.len(), self.mixed.len()),
            (Err(e), Some(bad)) => ensure!(
                mismatch_of(&e) == Some((s_ty, bad)),
                "bulk-error",
                "bulk conversion to {}: {:?}, first mismatching element is a {}",
                s_ty.name(),
                e,
                bad.name()
            ),
            (Ok(_), Some(bad)) => fail!("bulk-accepts-mismatch", "bulk conversion to {} accepts a {}", s_ty.name(), bad.name()),
            (Err(e), None) => fail!("bulk-rejects-match", "bulk conversion of matching shapes fails: {:?}", e),
        }
        Ok(())
    }
}

/// Identity chain for every generated value of type K.
struct Chain<'a>(&'a Geom);
impl KindFn for Chain<'_> {
    type Out = Result<(), Fail>;
    fn call<K: Kind>(self) -> Self::Out
    where
        Error: From<<K as TryFrom<Shape>>::Error>,
    {
        let v = K::build(self.0, Ctor::Plain);
        let view = v.view();
        let sh: Shape = v.clone().into();
        ensure!(variant_ty(&sh) == K::TY, "into-variant", "{} converts into variant {:?}", K::TY.name(), variant_ty(&sh));
        ensure!(
            ty_of(sh.shapetype()) == K::TY,
            "generic-shapetype",
            "Shape::from({}).shapetype() = {:?}",
            K::TY.name(),
            sh.shapetype()
        );
        ensure!(view_shape(&sh) == view, "into-changes-value", "Shape::from changes the value");
        match K::try_from(sh) {
            Ok(back) => ensure!(back.view() == view, "roundtrip-enum", "K::try_from(Shape::from(v)) differs from v"),
            Err(_) => fail!("roundtrip-enum", "{}::try_from(Shape::from(v)) fails", K::TY.name()),
        }
        // every other requested type names (requested, actual) correctly
        struct Other<'b>(&'b Shape, Ty);
        impl KindFn for Other<'_> {
            type Out = Result<(), Fail>;
            fn call<S2: Kind>(self) -> Self::Out
            where
                Error: From<<S2 as TryFrom<Shape>>::Error>,
            {
                if S2::TY == self.1 {
                    return Ok(());
                }
                let sh = clone_shape(self.0);
                match S2::try_from(sh) {
                    Ok(_) => fail!("wrong-type-accepted", "{}::try_from accepts a {}", S2::TY.name(), self.1.name()),
                    Err(e) => {
                        let e: Error = e.into();
                        ensure!(
                            mismatch_of(&e) == Some((S2::TY, self.1)),
                            "convert-error",
                            "{}::try_from({}): {:?}",
                            S2::TY.name(),
                            self.1.name(),
                            e
                        );
                    }
                }
                Ok(())
            }
        }
        let sh: Shape = v.clone().into();
        for s2 in ALL13 {
            dispatch(s2, Other(&sh, K::TY))?;
        }
        // the type code of the record it is written to
        let (shp, _) = write_bytes(&[v], false, Finish::Drop).map_err(|e| Fail::new("write-error", e))?;
        let code = i32::from_le_bytes(shp[108..112].try_into().unwrap());
        let hcode = i32::from_le_bytes(shp[32..36].try_into().unwrap());
        ensure!(code == K::TY.code() && hcode == code, "record-code", "{} written with record code {} / header code {}", K::TY.name(), code, hcode);
        Ok(())
    }
}

fn clone_shape(s: &Shape) -> Shape {
    match s {
        Shape::NullShape => Shape::NullShape,
        Shape::Point(x) => Shape::Point(*x),
        Shape::PointM(x) => Shape::PointM(*x),
        Shape::PointZ(x) => Shape::PointZ(*x),
        Shape::Polyline(x) => Shape::Polyline(x.clone()),
        Shape::PolylineM(x) => Shape::PolylineM(x.clone()),
        Shape::PolylineZ(x) => Shape::PolylineZ(x.clone()),
        Shape::Polygon(x) => Shape::Polygon(x.clone()),
        Shape::PolygonM(x) => Shape::PolygonM(x.clone()),
        Shape::PolygonZ(x) => Shape::PolygonZ(x.clone()),
        Shape::Multipoint(x) => Shape::Multipoint(x.clone()),
        Shape::MultipointM(x) => Shape::MultipointM(x.clone()),
        Shape::MultipointZ(x) => Shape::MultipointZ(x.clone()),
        Shape::Multipatch(x) => Shape::Multipatch(x.clone()),
    }
}

fn check_typed(c: &TypedCase, ctx: &mut Ctx) -> Result<(), Fail> {
    // build the file
    let (shp, shx, n) = if c.actual == Ty::Null {
        let fm = refcodec::FileModel::simple(c.null_header, (0..c.n_null).map(|_| Geom::null()).collect());
        let e = refcodec::encode(&fm);
        (e.shp, e.shx, c.n_null)
    } else {
        struct W<'a>(&'a [Geom]);
        impl KindFn for W<'_> {
            type Out = Result<(Vec<u8>, Vec<u8>), Fail>;
            fn call<K: Kind>(self) -> Self::Out
            where
                Error: From<<K as TryFrom<Shape>>::Error>,
            {
                let shapes: Vec<K> = build_all(self.0, Ctor::Plain);
                let (a, b) = write_bytes(&shapes, true, Finish::Drop).map_err(|e| Fail::new("write-error", e))?;
                Ok((a, b.unwrap()))
            }
        }
        let (a, b) = dispatch(c.actual, W(&c.geoms))?;
        (a, b, c.geoms.len())
    };
    ctx.class(&format!("actual={}", c.actual.name()));
    ctx.class(&format!("n={}", n.min(3)));
    if n >= 1 {
        ctx.nontrivial();
    }
    let generic = open_mem(&shp, None)
        .and_then(|r| r.read())
        .map_err(|e| Fail::new("read-error", format!("generic read: {}", err_str(&e))))?;
    let gviews = shape_views(&generic);
    for (i, s) in generic.iter().enumerate() {
        ensure!(
            variant_ty(s) == c.actual && ty_of(s.shapetype()) == c.actual,
            "generic-shapetype",
            "record {} of a {} file read as variant {:?} reporting {:?}",
            i,
            c.actual.name(),
            variant_ty(s),
            s.shapetype()
        );
    }
    for s_ty in ALL13 {
        dispatch(
            s_ty,
            Cell {
                shp: &shp,
                shx: &shx,
                actual: c.actual,
                n,
                generic: &gviews,
                mixed: &c.mixed,
            },
        )?;
    }
    for g in c.geoms.iter().chain(c.mixed.iter()) {
        dispatch(g.ty, Chain(g))?;
    }
    // TryFrom on the null shape
    struct NullReq;
    impl KindFn for NullReq {
        type Out = Result<(), Fail>;
        fn call<S: Kind>(self) -> Self::Out
        where
            Error: From<<S as TryFrom<Shape>>::Error>,
        {
            match S::try_from(Shape::NullShape) {
                Ok(_) => fail!("wrong-type-accepted", "{}::try_from(NullShape) succeeds", S::TY.name()),
                Err(e) => {
                    let e: Error = e.into();
                    ensure!(mismatch_of(&e) == Some((S::TY, Ty::Null)), "convert-error", "{}::try_from(NullShape): {:?}", S::TY.name(), e);
                }
            }
            Ok(())
        }
    }
    for s_ty in ALL13 {
        dispatch(s_ty, NullReq)?;
    }
    Ok(())
}

use proptest::prelude::*;
use serde::{Deserialize, Serialize};
use std::path::PathBuf;
use vlib::gen;
use vlib::kinds::Ctor;
use vlib::libops::Finish;
use vlib::model::*;
use vlib::run::Env;

#[derive(Serialize, Deserialize, Debug, Clone, Hash)]
pub struct FileCase {
    pub ty: Ty,
    pub ctor: Ctor,
    pub fin: Finish,
    pub disk: bool,
    /// finalize() is also called after shape i when bit i (mod 32) is set
    #[serde(default)]
    pub mid_fins: u32,
    /// a shape of another type is offered (and must be rejected) before shape i (i >= 1) when bit i (mod 32) is set;
    /// bit 0: finalize() is called on the fresh writer before the first write
    #[serde(default)]
    pub rejects: u32,
    pub geoms: Vec<Geom>,
}

pub fn ctor() -> BoxedStrategy<Ctor> {
    prop_oneof![3 => Just(Ctor::Plain), 3 => Just(Ctor::Single), 2 => Just(Ctor::Converted)].boxed()
}

pub fn finish() -> BoxedStrategy<Finish> {
    prop_oneof![Just(Finish::Drop), Just(Finish::FinalizeDrop), Just(Finish::WriteShapes), Just(Finish::Mixed)].boxed()
}

pub struct FileGen {
    pub min_n: usize,
    pub max_n: usize,
    pub nan_zm: bool,
    pub max_parts: usize,
    pub max_pts: usize,
    /// one in `disk_every` cases takes the on-disk routes (0 = never)
    pub disk_every: u32,
}

pub fn file_case(g: FileGen) -> BoxedStrategy<FileCase> {
    let FileGen {
        min_n,
        max_n,
        nan_zm,
        max_parts,
        max_pts,
        disk_every,
    } = g;
    let fins = prop_oneof![3 => Just(0u32), 2 => any::<u32>(), 1 => (0u32..32).prop_map(|b| 1 << b)];
    let rej = prop_oneof![4 => Just(0u32), 1 => any::<u32>(), 1 => (1u32..32).prop_map(|b| 1 << b), 1 => Just(1u32)];
    (gen::ty13(), ctor(), finish(), 0u32..disk_every.max(1), fins, rej)
        .prop_flat_map(move |(ty, ctor, fin, d, mid_fins, rejects)| {
            gen::shapes(ty, min_n, max_n, nan_zm, max_parts, max_pts).prop_map(move |geoms| FileCase {
                ty,
                ctor,
                fin,
                disk: disk_every > 0 && d == 0,
                mid_fins,
                rejects,
                geoms,
            })
        })
        .boxed()
}

/// Files with MANY records / parts / points: thresholds such as "more than 128 index entries" or
/// "more than 64 points in a part" are only reachable with sizes the skewed generator rarely draws.
pub fn large_file_case(nan_zm: bool) -> BoxedStrategy<FileCase> {
    let fins = prop_oneof![2 => Just(0u32), 1 => any::<u32>()];
    (gen::ty13(), ctor(), finish(), fins, 0u8..12, if nan_zm { gen::profile_mix_nan() } else { gen::profile_mix() })
        .prop_flat_map(move |(ty, ctor, fin, mid_fins, mode, prof)| {
            // mode 0-1: many records of tiny shapes; 2-3: few shapes with many parts; 4-5: few shapes with many points;
            // 6: one shape with 1000-1100 points in a part; 7: one shape with 500-530 parts; 8-9: 4097-4300 points in a part
            let (n, parts, pts) = match mode {
                0 | 1 => (130usize..=420, 2usize, 3usize),
                2 | 3 => (1usize..=3, 330usize, 3usize),
                4 | 5 => (1usize..=3, 3usize, 300usize),
                6 => (1usize..=1, 2usize, 1100usize),
                7 => (1usize..=1, 530usize, 2usize),
                8 | 9 => (1usize..=2, 2usize, 4300usize),
                10 => (1usize..=1, 1usize, 66_000usize),
                _ => (1usize..=1, 66_000usize, 1usize),
            };
            let cfg = gen::GenCfg::new(prof, nan_zm, parts, pts);
            let g = match mode {
                0 | 1 => gen::geom(ty, cfg),
                2 | 3 => gen::geom_sized(ty, cfg, 260..=parts, 0..=3),
                4 | 5 => gen::geom_sized(ty, cfg, 1..=3, 70..=pts),
                6 => gen::geom_sized(ty, cfg, 1..=2, 1000..=pts),
                7 => gen::geom_sized(ty, cfg, 500..=parts, 0..=2),
                8 | 9 => gen::geom_sized(ty, cfg, 1..=2, 4097..=pts),
                // counts that do not fit 16 bits
                10 => gen::geom_sized(ty, cfg, 1..=1, 65_537..=pts),
                _ => gen::geom_sized(ty, cfg, 65_537..=parts, 0..=1),
            };
            proptest::collection::vec(g, n).prop_map(move |geoms| FileCase {
                ty,
                ctor,
                fin,
                disk: false,
                mid_fins,
                rejects: 0,
                geoms,
            })
        })
        .boxed()
}

/// Thousands of small records of varying sizes written and read through the path-based routes: the files
/// are far larger than the 8 KiB buffers of BufWriter / BufReader, so record headers, record bodies and
/// index entries fall on every alignment relative to the buffer edges.
pub fn bufio_file_case() -> BoxedStrategy<FileCase> {
    (gen::ty13(), ctor(), finish(), prop_oneof![Just(0u32), any::<u32>()], gen::profile_mix_nan())
        .prop_flat_map(|(ty, ctor, fin, mid_fins, prof)| {
            let cfg = gen::GenCfg::new(prof, true, 2, 3);
            // one file in eight holds more than 65536 records
            let n = prop_oneof![7 => 2500usize..=7000, 1 => 65_600usize..=66_500];
            n.prop_flat_map(move |n| proptest::collection::vec(gen::geom(ty, cfg), n)).prop_map(move |geoms| FileCase {
                ty,
                ctor,
                fin,
                disk: true,
                mid_fins,
                rejects: 0,
                geoms,
            })
        })
        .boxed()
}

pub fn sizes(env: &Env) -> (usize, usize, usize) {
    // (max shapes per file, max parts, max points per part)
    if env.thorough() {
        (60, 10, 200)
    } else {
        (40, 8, 60)
    }
}

thread_local! {
    static SCRATCH: std::cell::RefCell<Option<PathBuf>> = const { std::cell::RefCell::new(None) };
}

pub fn scratch_root() -> PathBuf {
    PathBuf::from(format!("/verif/target/scratch/{}", std::process::id()))
}

/// Per-thread scratch directory below /verif/target/scratch/<pid>/ (removed by `cleanup_scratch`).
pub fn scratch_dir() -> PathBuf {
    SCRATCH.with(|s| {
        let mut s = s.borrow_mut();
        if s.is_none() {
            let id = format!("{:?}", std::thread::current().id())
                .chars()
                .filter(|c| c.is_ascii_digit())
                .collect::<String>();
            let p = scratch_root().join(format!("t{}", id));
            std::fs::create_dir_all(&p).expect("create scratch dir");
            *s = Some(p);
        }
        s.clone().unwrap()
    })
}

/// A scratch path for a path-based route: the stem and the extension's case vary with `salt`, and the files
/// that a previous, LONGER export would have left there are created first (a writer must replace them).
pub fn scratch_shp(tag: &str, salt: usize) -> PathBuf {
    let stems = ["plain", "UPPER", "with.dots.in.name", "with space", "ünïcode"];
    let exts = ["shp", "SHP", "Shp"];
    let p = scratch_dir().join(format!("{}-{}.{}", tag, stems[salt % stems.len()], exts[(salt / stems.len()) % exts.len()]));
    if salt % 4 == 0 {
        let junk = vec![0xABu8; 24_000];
        for e in ["shx", "dbf"] {
            let _ = std::fs::write(p.with_extension(e), &junk);
        }
        let _ = std::fs::write(&p, &junk);
    }
    p
}

pub fn cleanup_scratch() {
    let _ = std::fs::remove_dir_all(scratch_root());
}

pub fn has_threshold_measure(g: &Geom) -> bool {
    if !g.ty.carries_m() {
        return false;
    }
    g.all_pts().any(|v| {
        let m = v[3].v();
        m.is_nan() || m <= NO_DATA || m == gen::next_up(NO_DATA)
    })
}

pub fn classify_file(ctx: &mut vlib::run::Ctx, geoms: &[Geom]) {
    ctx.class(match geoms.len() {
        0 => "records=0",
        1 => "records=1",
        2 => "records=2",
        3..=9 => "records=3-9",
        _ => "records>=10",
    });
    let maxparts = geoms.iter().map(|g| g.parts.len()).max().unwrap_or(0);
    ctx.class(match maxparts {
        0 | 1 => "maxparts<=1",
        2 => "maxparts=2",
        _ => "maxparts>=3",
    });
    if geoms.iter().any(|g| g.all_pts().any(|v| v.iter().any(|f| is_special(*f)))) {
        ctx.class("special-float");
    }
    if geoms.iter().any(has_threshold_measure) {
        ctx.class("threshold-measure");
    }
    if geoms.iter().any(|g| g.npoints() > 100) {
        ctx.class("shape>100pts");
    }
}

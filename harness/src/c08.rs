//! C08 — shapes and attribute rows stay paired one-to-one through write and read.

use proptest::prelude::*;
use serde::{Deserialize, Serialize};
use shapefile::dbase;
use shapefile::{Error, Reader, Shape, ShapeReader, ShapeWriter, Writer};
use std::convert::TryInto;
use std::io::Cursor;
use vlib::gen;
use vlib::io::Dest;
use vlib::kinds::*;
use vlib::libops::*;
use vlib::model::*;
use vlib::refcodec::{self, Mode};
use vlib::run::*;
use vlib::{ensure, fail};

#[derive(Serialize, Deserialize, Debug, Clone, Copy, Hash, PartialEq, Eq)]
pub enum Call {
    Ok,
    /// shape of another type
    Mismatch,
    /// row lacks the `name` field
    RowMissingLast,
    /// row lacks the `idx` field
    RowMissingFirst,
    /// `idx` given as a character value
    RowWrongType,
}

#[derive(Serialize, Deserialize, Debug, Clone, Hash)]
pub struct PairCase {
    pub ty: Ty,
    pub other: Ty,
    pub calls: Vec<Call>,
    pub geoms: Vec<Geom>,
    pub other_geom: Geom,
    /// 0 = memory via Writer::new, 1 = Writer::from_path, 2 = Writer::from_path_with_info
    pub route: u8,
}

pub struct Pairs;

fn builder() -> dbase::TableWriterBuilder {
    dbase::TableWriterBuilder::new()
        .add_numeric_field("idx".try_into().unwrap(), 10, 0)
        .add_character_field("name".try_into().unwrap(), 12)
}

fn row(i: usize, call: Call) -> dbase::Record {
    let mut r = dbase::Record::default();
    match call {
        Call::RowMissingFirst => {}
        Call::RowWrongType => {
            r.insert("idx".to_string(), dbase::FieldValue::Character(Some(format!("{}", i))));
        }
        _ => {
            r.insert("idx".to_string(), dbase::FieldValue::Numeric(Some(i as f64)));
        }
    }
    if call != Call::RowMissingLast {
        r.insert("name".to_string(), dbase::FieldValue::Character(Some(format!("n{}", i))));
    }
    r
}

/// rows physically present in a .dbf: (complete rows, stray bytes)
fn dbf_rows(b: &[u8]) -> Result<(usize, usize), String> {
    if b.is_empty() {
        return Ok((0, 0));
    }
    if b.len() < 32 {
        return Err(format!("dbf of {} bytes", b.len()));
    }
    let hlen = u16::from_le_bytes([b[8], b[9]]) as usize;
    let rlen = u16::from_le_bytes([b[10], b[11]]) as usize;
    if rlen == 0 || b.len() < hlen {
        return Err(format!("dbf header length {} record length {} file {}", hlen, rlen, b.len()));
    }
    let mut body = b.len() - hlen;
    // a finalized table ends with the 0x1A terminator
    if body % rlen == 1 && b[b.len() - 1] == 0x1A {
        body -= 1;
    }
    Ok((body / rlen, body % rlen))
}

fn counts(shp: &[u8], shx: &[u8], dbf: &[u8]) -> Result<(usize, usize, usize, usize), String> {
    let s = if shp.is_empty() {
        0
    } else {
        // before finalize the header still holds the length reserved at the first write: count records by walking them
        let mut n = 0;
        let mut p = 100;
        while p + 8 <= shp.len() {
            let l = i32::from_be_bytes(shp[p + 4..p + 8].try_into().unwrap());
            if l < 0 {
                return Err(format!("record at {} has length {}", p, l));
            }
            p += 8 + l as usize * 2;
            n += 1;
        }
        if p != shp.len() {
            return Err(format!("shp records end at {} but the file has {} bytes", p, shp.len()));
        }
        n
    };
    let x = if shx.is_empty() { 0 } else { (shx.len() - 100) / 8 };
    let (d, stray) = dbf_rows(dbf)?;
    Ok((s, x, d, stray))
}

struct Run<'a> {
    c: &'a PairCase,
}

impl KindFn for Run<'_> {
    type Out = Result<bool, Fail>;
    fn call<K: Kind>(self) -> Self::Out
    where
        Error: From<<K as TryFrom<Shape>>::Error>,
    {
        run_pairs::<K>(self.c)
    }
}

/// Write one shape of a run-time chosen type together with a row.
struct WriteOther<'a, 'b>(&'a mut Writer<Dest>, &'b Geom, &'b dbase::Record);
impl KindFn for WriteOther<'_, '_> {
    type Out = Result<(), Error>;
    fn call<K: Kind>(self) -> Self::Out
    where
        Error: From<<K as TryFrom<Shape>>::Error>,
    {
        self.0.write_shape_and_record(&K::build(self.1, Ctor::Plain), self.2)
    }
}
struct WriteOtherFile<'a, 'b>(&'a mut Writer<std::io::BufWriter<std::fs::File>>, &'b Geom, &'b dbase::Record);
impl KindFn for WriteOtherFile<'_, '_> {
    type Out = Result<(), Error>;
    fn call<K: Kind>(self) -> Self::Out
    where
        Error: From<<K as TryFrom<Shape>>::Error>,
    {
        self.0.write_shape_and_record(&K::build(self.1, Ctor::Plain), self.2)
    }
}

/// Returns Ok(true) if the history was checked to its end.
fn run_pairs<K: Kind>(c: &PairCase) -> Result<bool, Fail>
where
    Error: From<<K as TryFrom<Shape>>::Error>,
{
    let shapes: Vec<K> = build_all(&c.geoms, Ctor::Plain);
    let mut accepted: Vec<(usize, Geom)> = Vec::new(); // (row idx, expected view)
    let mut file_ty: Option<Ty> = None;
    let mut gi = 0usize;

    if c.route == 0 {
        let (shp, shx, dbf) = (Dest::new(), Dest::new(), Dest::new());
        {
            let sw = ShapeWriter::with_shx(shp.clone(), shx.clone());
            let tw = builder().build_with_dest(dbf.clone());
            let w = Writer::new(sw, tw);
            // histories made of accepted pairs only: one in two hands its second half (all of it when it has fewer than
            // two calls) to the consuming bulk call, after the first half went through one call per pair
            let bulk = !shapes.is_empty() && c.calls.iter().all(|x| *x == Call::Ok) && (c.calls.len() + c.geoms.len()) % 2 == 0;
            let bulk_from = if bulk { c.calls.len() / 2 } else { usize::MAX };
            let mut w_opt = Some(w);
            for (k, call) in c.calls.iter().enumerate() {
                if k == bulk_from {
                    let w = w_opt.take().unwrap();
                    let rows: Vec<dbase::Record> = (k..c.calls.len()).map(|j| row(j, Call::Ok)).collect();
                    let cycled: Vec<&K> = (k..c.calls.len()).map(|j| &shapes[j % shapes.len()]).collect();
                    w.write_shapes_and_records(cycled.iter().copied().zip(rows.iter())).map_err(|e| Fail::new("good-call-rejected", format!("write_shapes_and_records with {} pairs after {} single calls: {}", rows.len(), k, err_str(&e))))?;
                    for j in k..c.calls.len() {
                        accepted.push((j, expected_after_read(&shapes[j % shapes.len()].view())));
                    }
                    break;
                }
                let w = match w_opt.as_mut() {
                    Some(w) => w,
                    None => break,
                };
                let r = row(k, *call);
                let (ty, res) = if *call == Call::Mismatch {
                    (c.other, dispatch(c.other, WriteOther(w, &c.other_geom, &r)))
                } else {
                    let s = &shapes[if bulk { k % shapes.len() } else { gi % shapes.len().max(1) }];
                    gi += 1;
                    (c.ty, w.write_shape_and_record(s, &r))
                };
                let shape_ok = file_ty.is_none() || file_ty == Some(ty);
                let row_ok = matches!(call, Call::Ok | Call::Mismatch);
                let expect_ok = shape_ok && row_ok;
                match (&res, expect_ok) {
                    (Ok(()), true) => {
                        file_ty.get_or_insert(ty);
                        let view = if *call == Call::Mismatch {
                            struct V<'a>(&'a Geom);
                            impl KindFn for V<'_> {
                                type Out = Geom;
                                fn call<K2: Kind>(self) -> Geom
                                where
                                    Error: From<<K2 as TryFrom<Shape>>::Error>,
                                {
                                    K2::build(self.0, Ctor::Plain).view()
                                }
                            }
                            dispatch(c.other, V(&c.other_geom))
                        } else {
                            shapes[if bulk { k % shapes.len() } else { (gi - 1) % shapes.len() }].view()
                        };
                        accepted.push((k, expected_after_read(&view)));
                    }
                    (Ok(()), false) => fail!("bad-call-accepted", "call #{} {:?} should fail but returned Ok", k, call),
                    (Err(e), true) => fail!("good-call-rejected", "call #{} {:?} failed: {}", k, call, err_str(e)),
                    (Err(_), false) => {
                        if shape_ok {
                            // the shape was acceptable; the row was not: the shape's type is now the file's type
                            file_ty.get_or_insert(ty);
                        }
                    }
                }
                // entry counts after every call that returned
                let (s, x, d, stray) = counts(&shp.bytes(), &shx.bytes(), &dbf.bytes()).map_err(|e| Fail::new("unparsable", format!("after call #{}: {}", k, e)))?;
                if !(s == x && x == d && stray == 0) {
                    let key = if !row_ok && shape_ok && res.is_err() {
                        "row-rejected-after-shape-written"
                    } else {
                        "counts-differ"
                    };
                    fail!(
                        key,
                        "history {:?}: after call #{} ({:?}, returned {}) the files hold {} shp records, {} shx entries, {} dbf rows (+{} stray dbf bytes)",
                        c.calls,
                        k,
                        call,
                        if res.is_ok() { "Ok" } else { "Err" },
                        s,
                        x,
                        d,
                        stray
                    );
                }
                ensure!(s == accepted.len(), "counts-differ", "history {:?}: {} entries after call #{}, {} pairs accepted", c.calls, s, k, accepted.len());
            }
        }
        let (sb, xb, db) = (shp.bytes(), shx.bytes(), dbf.bytes());
        if let Err(e) = refcodec::decode(&sb, Mode::Strict) {
            fail!("malformed", "final .shp: {}", e);
        }
        let (s, x, d, stray) = counts(&sb, &xb, &db).map_err(|e| Fail::new("unparsable", e))?;
        ensure!(s == x && x == d && stray == 0 && s == accepted.len(), "counts-differ", "final files: {} / {} / {} (+{}) entries, {} pairs accepted", s, x, d, stray, accepted.len());
        if db.len() >= 8 {
            let declared = u32::from_le_bytes(db[4..8].try_into().unwrap()) as usize;
            ensure!(declared == accepted.len(), "dbf-header-count", "dbf header declares {} rows, {} pairs accepted", declared, accepted.len());
        }
        // complete reader from in-memory sources
        let sr = ShapeReader::with_shx(Cursor::new(sb.clone()), Cursor::new(xb.clone())).map_err(|e| Fail::new("open-error", err_str(&e)))?;
        let dr = dbase::Reader::new(Cursor::new(db.clone())).map_err(|e| Fail::new("open-error", format!("dbf: {:?}", e)))?;
        let mut rd = Reader::new(sr, dr);
        let pairs = rd.read().map_err(|e| Fail::new("read-error", err_str(&e)))?;
        check_pairs("Reader::new(..).read()", &pairs, &accepted)?;
        // iterator form on a fresh reader
        let sr = ShapeReader::with_shx(Cursor::new(sb), Cursor::new(xb)).map_err(|e| Fail::new("open-error", err_str(&e)))?;
        let dr = dbase::Reader::new(Cursor::new(db)).map_err(|e| Fail::new("open-error", format!("dbf: {:?}", e)))?;
        let mut rd = Reader::new(sr, dr);
        let (items, over) = drain_capped(rd.iter_shapes_and_records(), accepted.len() + 2);
        ensure!(!over, "count", "iter_shapes_and_records yields more than {} pairs", accepted.len());
        let mut got = Vec::new();
        for it in items {
            got.push(it.map_err(|e| Fail::new("read-error", err_str(&e)))?);
        }
        check_pairs("iter_shapes_and_records", &got, &accepted)?;
        // pairs fetched in two batches on the same reader, with and without the index: shape i still comes with row i
        for with_index in [true, false] {
            let (sb, xb, db) = (shp.bytes(), shx.bytes(), dbf.bytes());
            let sr = if with_index {
                ShapeReader::with_shx(Cursor::new(sb), Cursor::new(xb))
            } else {
                ShapeReader::new(Cursor::new(sb))
            }
            .map_err(|e| Fail::new("open-error", err_str(&e)))?;
            let dr = dbase::Reader::new(Cursor::new(db)).map_err(|e| Fail::new("open-error", format!("dbf: {:?}", e)))?;
            let mut rd = Reader::new(sr, dr);
            let k = accepted.len() / 2;
            let mut got = Vec::new();
            {
                let mut it = rd.iter_shapes_and_records();
                for _ in 0..k {
                    match it.next() {
                        Some(Ok(p)) => got.push(p),
                        Some(Err(e)) => fail!("read-error", "first batch: {}", err_str(&e)),
                        None => fail!("pair-count", "first batch ends after {} of {} pairs", got.len(), accepted.len()),
                    }
                }
            }
            let rest = rd.read().map_err(|e| Fail::new("read-error", format!("second batch: {}", err_str(&e))))?;
            got.extend(rest);
            check_pairs(if with_index { "two batches (with index)" } else { "two batches (no index)" }, &got, &accepted)?;
        }
        return Ok(true);
    }

    // on-disk routes: only histories without row failures (those are covered in memory; K1 would leave
    // files that cannot be compared)
    let p = crate::common::scratch_shp("c08", c.calls.len() + c.geoms.len());
    {
        let mut w = if c.route == 1 {
            Writer::from_path(&p, builder())
        } else {
            Writer::from_path_with_info(&p, builder().build_table_info())
        }
        .map_err(|e| Fail::new("write-error", err_str(&e)))?;
        for (k, call) in c.calls.iter().enumerate() {
            let r = row(k, Call::Ok);
            let (ty, res) = if *call == Call::Mismatch {
                (c.other, dispatch(c.other, WriteOtherFile(&mut w, &c.other_geom, &r)))
            } else {
                let s = &shapes[gi % shapes.len().max(1)];
                gi += 1;
                (c.ty, w.write_shape_and_record(s, &r))
            };
            let shape_ok = file_ty.is_none() || file_ty == Some(ty);
            match (&res, shape_ok) {
                (Ok(()), true) => {
                    file_ty.get_or_insert(ty);
                    if *call == Call::Mismatch {
                        // the offered type became the file's type: nothing of K to compare, skip this route
                        return Ok(false);
                    }
                    accepted.push((k, expected_after_read(&shapes[(gi - 1) % shapes.len()].view())));
                }
                (Err(_), false) => {}
                (Ok(()), false) => fail!("bad-call-accepted", "disk: call #{} {:?} should fail", k, call),
                (Err(e), true) => fail!("good-call-rejected", "disk: call #{} {:?}: {}", k, call, err_str(e)),
            }
        }
    }
    let pairs = shapefile::read(&p).map_err(|e| Fail::new("read-error", format!("shapefile::read: {}", err_str(&e))))?;
    check_pairs("shapefile::read(path)", &pairs, &accepted)?;
    if !accepted.is_empty() {
        let typed = shapefile::read_as::<_, K, dbase::Record>(&p).map_err(|e| Fail::new("read-error", format!("shapefile::read_as: {}", err_str(&e))))?;
        let generic: Vec<(Shape, dbase::Record)> = typed.into_iter().map(|(s, r)| (s.into(), r)).collect();
        check_pairs("shapefile::read_as(path)", &generic, &accepted)?;
    }
    let mut rd = Reader::from_path(&p).map_err(|e| Fail::new("open-error", err_str(&e)))?;
    ensure!(rd.shape_count().ok() == Some(accepted.len()), "counts-differ", "Reader::from_path: shape_count {:?}, {} pairs", rd.shape_count().ok(), accepted.len());
    let pairs = rd.read().map_err(|e| Fail::new("read-error", err_str(&e)))?;
    check_pairs("Reader::from_path(..).read()", &pairs, &accepted)?;
    // the usual way to copy a shapefile: typed pairs read by path, the schema taken over with into_table_info(),
    // the pairs written again through Writer::from_path_with_info — shape i still comes with row i
    if !accepted.is_empty() {
        let mut rd = Reader::from_path(&p).map_err(|e| Fail::new("open-error", err_str(&e)))?;
        let typed = rd.read_as::<K, dbase::Record>().map_err(|e| Fail::new("read-error", format!("Reader::read_as: {}", err_str(&e))))?;
        let info = rd.into_table_info();
        let p2 = crate::common::scratch_shp("c08-copy", c.calls.len() + c.geoms.len() + 1);
        {
            let mut w = Writer::from_path_with_info(&p2, info).map_err(|e| Fail::new("write-error", format!("copy: {}", err_str(&e))))?;
            for (i, (s, r)) in typed.iter().enumerate() {
                w.write_shape_and_record(s, r).map_err(|e| Fail::new("write-error", format!("copy: pair {}: {}", i, err_str(&e))))?;
            }
        }
        let again = shapefile::read(&p2).map_err(|e| Fail::new("read-error", format!("copy: shapefile::read: {}", err_str(&e))))?;
        check_pairs("copy through read_as + into_table_info + from_path_with_info", &again, &accepted)?;
    }
    Ok(true)
}

fn check_pairs(what: &str, got: &[(Shape, dbase::Record)], accepted: &[(usize, Geom)]) -> Result<(), Fail> {
    ensure!(got.len() == accepted.len(), "pair-count", "{}: {} pairs read, {} written", what, got.len(), accepted.len());
    for (i, ((s, r), (idx, view))) in got.iter().zip(accepted).enumerate() {
        if let Err(m) = same_after_read(view, &view_shape(s)) {
            fail!("pair-shifted", "{}: pair {}: shape differs from the {}th accepted shape: {}", what, i, i, m);
        }
        let ri = match r.get("idx") {
            Some(dbase::FieldValue::Numeric(Some(v))) => *v as usize,
            other => fail!("row-unreadable", "{}: pair {}: idx field is {:?}", what, i, other),
        };
        ensure!(ri == *idx, "pair-shifted", "{}: pair {}: shape of call #{} came with the row of call #{}", what, i, idx, ri);
        let name = match r.get("name") {
            Some(dbase::FieldValue::Character(Some(s))) => s.clone(),
            other => fail!("row-unreadable", "{}: pair {}: name field is {:?}", what, i, other),
        };
        ensure!(name == format!("n{}", idx), "pair-shifted", "{}: pair {}: name '{}' for call #{}", what, i, name, idx);
    }
    Ok(())
}

impl Prop for Pairs {
    type Case = PairCase;
    fn name() -> &'static str {
        "pairs"
    }
    fn rule() -> &'static str {
        "proptest: type T (13), schema {Numeric idx, Character name}, a history of 0..10 write_shape_and_record calls each one of \
         {ok, shape of another type, row missing its last field, row missing its first field, row value of the wrong field type}, rows \
         carry the index of their call; route in {three logging destinations via Writer::new, Writer::from_path, \
         Writer::from_path_with_info}. Oracle: after every call that returned, shp records / shx entries / dbf rows (independent \
         parsing, stray dbf bytes counted) are equal and equal to the number of accepted pairs; final dbf header row count; \
         Reader::new(..).read(), iter_shapes_and_records, shapefile::read(path), read_as(path), Reader::from_path return exactly the \
         accepted pairs in order, shape i (bit view) with the row of the same call. Half the histories contain no row failure \
         (fully checked); a history with a row failure ends at that call (known finding K1). \
         Non-trivial: >=2 accepted pairs, or a failing call followed by an accepted one"
    }
    fn check(c: &PairCase, ctx: &mut Ctx) -> Result<(), Fail> {
        let oks = c.calls.iter().filter(|x| **x == Call::Ok).count();
        let fail_then_ok = c.calls.iter().position(|x| *x != Call::Ok).map(|p| c.calls[p..].contains(&Call::Ok)).unwrap_or(false);
        if oks >= 2 || fail_then_ok {
            ctx.nontrivial();
        }
        ctx.class(match c.route {
            0 => "memory",
            1 => "from_path",
            _ => "from_path_with_info",
        });
        if c.calls.iter().any(|x| matches!(x, Call::RowMissingLast | Call::RowMissingFirst | Call::RowWrongType)) {
            ctx.class("has-row-failure");
        } else if c.calls.contains(&Call::Mismatch) {
            ctx.class("mismatch-only");
        } else {
            ctx.class("all-ok");
        }
        let done = dispatch(c.ty, Run { c })?;
        if !done {
            ctx.class("disk-route-skipped(offered type became file type)");
        }
        Ok(())
    }
}

pub struct PairsLarge;
impl Prop for PairsLarge {
    type Case = PairCase;
    fn name() -> &'static str {
        "pairs-large"
    }
    fn rule() -> &'static str {
        "proptest: 130-300 accepted pairs (plus a few rejected shapes of another type) through the memory and from_path routes; the          pairs oracle; non-trivial: every case"
    }
    fn check(c: &PairCase, ctx: &mut Ctx) -> Result<(), Fail> {
        ctx.nontrivial();
        Pairs::check(c, ctx)
    }
}
impl RandomProp for PairsLarge {
    fn strategy(_env: &Env) -> BoxedStrategy<PairCase> {
        (gen::ty13(), 1usize..13, 0u8..3)
            .prop_flat_map(|(ty, shift, route)| {
                let other = ALL13[(ty.index13() + shift) % 13];
                let cfg = gen::GenCfg::new(gen::Profile::Small, false, 2, 3);
                let call = prop_oneof![12 => Just(Call::Ok), 1 => Just(Call::Mismatch)];
                (proptest::collection::vec(call, 140..300), proptest::collection::vec(gen::geom(ty, cfg), 1..4), gen::geom(other, cfg)).prop_map(
                    move |(mut calls, geoms, other_geom)| {
                        calls[0] = Call::Ok;
                        PairCase {
                            ty,
                            other,
                            calls,
                            geoms,
                            other_geom,
                            route,
                        }
                    },
                )
            })
            .boxed()
    }
    fn cases(env: &Env) -> u64 {
        env.n(13 * 6, 13 * 300)
    }
}

impl RandomProp for Pairs {
    fn strategy(_env: &Env) -> BoxedStrategy<PairCase> {
        (gen::ty13(), 1usize..13, prop_oneof![2 => Just(0u8), 1 => Just(1u8), 1 => Just(2u8)], any::<bool>(), 0u8..4, 0u8..16)
            .prop_flat_map(|(ty, shift, route, rowfail, nan, big)| {
                let other = ALL13[(ty.index13() + shift) % 13];
                // one history in four draws from the profile in which X and Y may be NaN as well
                let cfg = gen::GenCfg::new(if nan == 0 { gen::Profile::WithNan } else { gen::Profile::NonNan }, true, 3, 5);
                // one history in sixteen carries parts of up to 400 points (block effects in the point writers / readers)
                let cfg = if big == 0 { gen::GenCfg::new(gen::Profile::NonNan, true, 2, 400) } else { cfg };
                let call = if rowfail && route == 0 {
                    prop_oneof![6 => Just(Call::Ok), 2 => Just(Call::Mismatch), 1 => Just(Call::RowMissingLast), 1 => Just(Call::RowMissingFirst), 1 => Just(Call::RowWrongType)].boxed()
                } else {
                    prop_oneof![6 => Just(Call::Ok), 2 => Just(Call::Mismatch)].boxed()
                };
                (proptest::collection::vec(call, 0..10), proptest::collection::vec(gen::geom(ty, cfg), 1..4), gen::geom(other, cfg)).prop_map(
                    move |(calls, geoms, other_geom)| PairCase {
                        ty,
                        other,
                        calls,
                        geoms,
                        other_geom,
                        route,
                    },
                )
            })
            .boxed()
    }
    fn cases(env: &Env) -> u64 {
        env.n(13 * 3000, 13 * 100_000)
    }
}

//! C05 — stored bounding boxes are exact: per shape and in the file header.

use crate::common::*;
use proptest::prelude::*;
use serde::{Deserialize, Serialize};
use shapefile::Shape;
use vlib::gen;
use vlib::kinds::*;
use vlib::libops::*;
use vlib::model::*;
use vlib::refcodec::{self, Mode};
use vlib::run::*;
use vlib::{ensure, fail};

#[derive(Serialize, Deserialize, Debug, Clone, Hash)]
pub struct Plant {
    /// 0 = x, 1 = y, 2 = z, 3 = m
    pub dim: u8,
    pub shape: u16,
    pub part: u16,
    /// 0 = first vertex, 1 = last, 2 = middle
    pub pos: u8,
    pub value: F,
}

#[derive(Serialize, Deserialize, Debug, Clone, Hash)]
pub struct BoxCase {
    pub file: FileCase,
    pub plants: Vec<Plant>,
    /// measures: false = all real data, true = leave generated no-data values in
    pub allow_nodata: bool,
}

pub struct Boxes;

fn plant_value() -> BoxedStrategy<F> {
    prop_oneof![
        3 => gen::f_moderate(),
        2 => Just(F::of(f64::INFINITY)),
        2 => Just(F::of(f64::NEG_INFINITY)),
        1 => Just(F::of(f64::MAX)),
        1 => Just(F::of(f64::MIN)),
        1 => Just(F::of(gen::next_down(f64::MAX))),
        1 => Just(F::of(gen::next_up(f64::MIN))),
        1 => Just(F::of(0.0)),
        1 => Just(F::of(-0.0)),
        1 => Just(F::of(1e300)),
        1 => Just(F::of(-1e300)),
        1 => Just(F::of(1e6)),
        1 => Just(F::of(-1e6)),
    ]
    .boxed()
}

impl Prop for Boxes {
    type Case = BoxCase;
    fn name() -> &'static str {
        "boxes"
    }
    fn rule() -> &'static str {
        "proptest: n>=1 shapes over non-NaN doubles; minima/maxima are planted at generated (shape, part, first/last/middle vertex) \
         positions (finalize() also called mid-history, shapes of another type with huge coordinates offered and rejected) with values from {ordinary, +-0, +-inf, f64::MAX/MIN and neighbours}; reference fold with plain < / > per shape and \
         over the sequence, compared numerically with the accessor box, the record box bytes (independent decode) and header bytes \
         36..100 plus ShapeReader::header().bbox; header Z for Z types and multipatch, header M for M/Z types when every measure is real \
         data, 0 for dimensions the type lacks. Non-trivial: >=2 shapes with some extreme not at the first vertex of the first shape, \
         or an extreme that is infinite / f64::MAX / f64::MIN"
    }
    fn check(c: &BoxCase, ctx: &mut Ctx) -> Result<(), Fail> {
        struct F2<'a>(&'a BoxCase, &'a mut Ctx);
        impl KindFn for F2<'_> {
            type Out = Result<(), Fail>;
            fn call<K: Kind>(self) -> Self::Out
            where
                shapefile::Error: From<<K as TryFrom<Shape>>::Error>,
            {
                boxes_k::<K>(self.0, self.1)
            }
        }
        dispatch(c.file.ty, F2(c, ctx))
    }
}

pub struct BoxesLarge;
impl Prop for BoxesLarge {
    type Case = BoxCase;
    fn name() -> &'static str {
        "boxes-large"
    }
    fn rule() -> &'static str {
        "proptest: the boxes oracle on shapes with 4096-4600 points in a part (and on 130-300 small shapes), extremes planted at the \
         first / last / middle vertex: thresholds on the number of points folded into a box; non-trivial: every case"
    }
    fn check(c: &BoxCase, ctx: &mut Ctx) -> Result<(), Fail> {
        ctx.nontrivial();
        Boxes::check(c, ctx)
    }
}
impl RandomProp for BoxesLarge {
    fn strategy(_env: &Env) -> BoxedStrategy<BoxCase> {
        let plant = (0u8..4, any::<u16>(), any::<u16>(), 0u8..3, plant_value()).prop_map(|(dim, shape, part, pos, value)| Plant { dim, shape, part, pos, value });
        (gen::ty13(), any::<bool>(), proptest::collection::vec(plant, 2..8), crate::common::finish())
            .prop_flat_map(|(ty, many, plants, fin)| {
                let cfg = gen::GenCfg::new(gen::Profile::Moderate, false, 2, 4600);
                let geoms = if many {
                    // record counts at and around powers of two (a writer may treat every 2^k-th record specially)
                    let n = prop_oneof![
                        2 => 130usize..=300,
                        1 => (7u32..=13, 0usize..3).prop_map(|(k, d)| (1usize << k) + d - 1),
                        1 => Just(16_384usize),
                    ];
                    n.prop_flat_map(move |n| proptest::collection::vec(gen::geom(ty, gen::GenCfg::new(gen::Profile::Moderate, false, 2, 3)), n)).boxed()
                } else {
                    proptest::collection::vec(gen::geom_sized(ty, cfg, 1..=2, 4096..=4600), 1..=2).boxed()
                };
                let mut plants = plants.clone();
                plants.push(Plant { dim: 0, shape: u16::MAX, part: 0, pos: 1, value: F::of(-7.5e7) });
                plants.push(Plant { dim: 1, shape: u16::MAX, part: 0, pos: 0, value: F::of(8.5e7) });
                geoms.prop_map(move |geoms| BoxCase {
                    file: FileCase {
                        ty,
                        ctor: Ctor::Plain,
                        fin,
                        disk: false,
                        mid_fins: 0,
                        rejects: 0,
                        geoms,
                    },
                    plants: plants.clone(),
                    allow_nodata: false,
                })
            })
            .boxed()
    }
    fn cases(env: &Env) -> u64 {
        env.n(13 * 8, 13 * 200)
    }
}

impl RandomProp for Boxes {
    fn strategy(env: &Env) -> BoxedStrategy<BoxCase> {
        let (n, parts, pts) = sizes(env);
        (
            file_case(FileGen {
                min_n: 1,
                max_n: n.min(24),
                nan_zm: false,
                max_parts: parts,
                max_pts: pts.min(40),
                disk_every: 0,
            }),
            proptest::collection::vec(
                (0u8..4, any::<u16>(), any::<u16>(), 0u8..3, plant_value()).prop_map(|(dim, shape, part, pos, value)| Plant {
                    dim,
                    shape,
                    part,
                    pos,
                    value,
                }),
                0..6,
            ),
            prop_oneof![3 => Just(false), 1 => Just(true)],
        )
            .prop_map(|(file, plants, allow_nodata)| BoxCase {
                file,
                plants,
                allow_nodata,
            })
            .boxed()
    }
    fn cases(env: &Env) -> u64 {
        env.n(13 * 10_000, 13 * 300_000)
    }
}

fn num_eq(a: F, b: F) -> bool {
    a.v() == b.v()
}

fn boxes_k<K: Kind>(c: &BoxCase, ctx: &mut Ctx) -> Result<(), Fail> {
    let ty = c.file.ty;
    let mut geoms = c.file.geoms.clone();
    // measures: make everything real data unless no-data is allowed in this case
    if ty.carries_m() && !c.allow_nodata {
        for g in geoms.iter_mut() {
            for p in g.parts.iter_mut() {
                for v in p.pts.iter_mut() {
                    if v[3].v() <= NO_DATA {
                        v[3] = F::of(-v[3].v().max(-1e300) * 1e-30);
                    }
                }
            }
        }
    }
    for pl in &c.plants {
        let d = pl.dim as usize;
        if (d == 2 && !ty.has_z()) || (d == 3 && !ty.carries_m()) {
            continue;
        }
        if d == 3 && pl.value.v() <= NO_DATA && !c.allow_nodata {
            continue;
        }
        let si = gen::pick(pl.shape, geoms.len());
        let g = &mut geoms[si];
        let nonempty: Vec<usize> = (0..g.parts.len()).filter(|i| !g.parts[*i].pts.is_empty()).collect();
        if nonempty.is_empty() {
            continue;
        }
        let pi = nonempty[gen::pick(pl.part, nonempty.len())];
        let pts = &mut g.parts[pi].pts;
        let vi = match pl.pos {
            0 => 0,
            1 => pts.len() - 1,
            _ => pts.len() / 2,
        };
        pts[vi][d] = pl.value;
    }
    classify_file(ctx, &geoms);
    let shapes: Vec<K> = build_all(&geoms, c.file.ctor);
    let views_ = views(&shapes);
    let multi = ty.family() != Family::Point;

    // (a) accessor box of every constructed value == reference fold over its own vertices
    let mut all_parts: Vec<Part> = Vec::new();
    for (i, v) in views_.iter().enumerate() {
        all_parts.extend(v.parts.iter().cloned());
        if multi {
            let r = match ref_bbox(ty, &v.parts) {
                Some(r) => r,
                None => fail!("shape-bbox", "shape {} built from {} vertices holds no vertex at all; its box is {:?}", i, geoms[i].npoints(), v.bbox),
            };
            for k in 0..8 {
                ensure!(
                    num_eq(r[k], v.bbox[k]),
                    "shape-bbox",
                    "shape {} ({}): accessor box[{}] = {:?}, extreme of its vertices = {:?}",
                    i,
                    v.short(),
                    k,
                    v.bbox[k],
                    r[k]
                );
            }
        }
    }
    // (a') the range accessors the writer itself consumes (EsriShape::{x,y,z,m}_range) agree with the same fold
    for (i, (s, v)) in shapes.iter().zip(&views_).enumerate() {
        use shapefile::record::EsriShape;
        if let Err(m) = s.box_getters_agree() {
            fail!("shape-bbox", "shape {} ({}): {}", i, v.short(), m);
        }
        let r = match ref_bbox(ty, &v.parts) {
            Some(r) => r,
            None => continue,
        };
        let (xr, yr, zr, mr) = (s.x_range(), s.y_range(), s.z_range(), s.m_range());
        ensure!(xr[0] == r[0].v() && xr[1] == r[2].v() && yr[0] == r[1].v() && yr[1] == r[3].v(), "shape-bbox", "shape {} ({}): x_range {:?} / y_range {:?} vs extremes {:?}", i, v.short(), xr, yr, &r[..4]);
        if ty.has_z() {
            ensure!(zr[0] == r[4].v() && zr[1] == r[5].v(), "shape-bbox", "shape {} ({}): z_range {:?} vs extremes [{:?}, {:?}]", i, v.short(), zr, r[4], r[5]);
        }
        let real = v.parts.iter().all(|p| p.pts.iter().all(|q| q[3].v() > NO_DATA));
        if ty.has_m() && real {
            ensure!(mr[0] == r[6].v() && mr[1] == r[7].v(), "shape-bbox", "shape {} ({}): m_range {:?} vs extremes [{:?}, {:?}]", i, v.short(), mr, r[6], r[7]);
        }
    }
    // (b) record box bytes, (c) header bytes
    let (shp, _) = match write_bytes_hist(&shapes, true, c.file.fin, c.file.mid_fins, c.file.rejects) {
        Ok(x) => x,
        Err(e) => fail!("write-error", "{}", e),
    };
    let d = match refcodec::decode(&shp, Mode::Strict) {
        Ok(d) => d,
        Err(e) => fail!("malformed", "{}", e),
    };
    ensure!(d.recs.len() == views_.len(), "count", "{} records for {} shapes", d.recs.len(), views_.len());
    // one case in six: the header the path-based writer leaves on disk
    if (c.plants.len() + views_.len()) % 6 == 0 {
        ctx.class("from_path-route");
        let p = scratch_dir().join("c05.shp");
        {
            let w = shapefile::ShapeWriter::from_path(&p).map_err(|e| Fail::new("write-error", err_str(&e)))?;
            drive_writer_ff(w, &shapes, c.file.fin, c.file.mid_fins, c.file.rejects & 1 != 0).map_err(|e| Fail::new("write-error", e))?;
        }
        let disk = std::fs::read(&p).map_err(|e| Fail::new("disk-io", e.to_string()))?;
        let dd = refcodec::decode(&disk, Mode::Strict).map_err(|e| Fail::new("malformed", format!("from_path: {}", e)))?;
        for k in 0..8 {
            ensure!(
                dd.header_bbox[k].v() == d.header_bbox[k].v() || (dd.header_bbox[k].is_nan() && d.header_bbox[k].is_nan()),
                "header-xy",
                "from_path header box[{}] = {:?}, in-memory writer gives {:?}",
                k,
                dd.header_bbox[k],
                d.header_bbox[k]
            );
        }
    }
    if multi {
        for (i, (r, v)) in d.recs.iter().zip(&views_).enumerate() {
            let rb = ref_bbox(ty, &v.parts).unwrap();
            for k in 0..8 {
                ensure!(
                    num_eq(r.geom.bbox[k], rb[k]),
                    "record-bbox",
                    "record {}: stored box[{}] = {:?}, extreme of the vertices = {:?}",
                    i + 1,
                    k,
                    r.geom.bbox[k],
                    rb[k]
                );
            }
        }
    }
    let whole = ref_bbox(ty, &all_parts).unwrap();
    let all_real = all_parts.iter().all(|p| p.pts.iter().all(|v| v[3].v() > NO_DATA));
    let hb = d.header_bbox;
    let rdr = open_mem(&shp, None).map_err(|e| Fail::new("open-error", err_str(&e)))?;
    let lb = rdr.header().bbox;
    let lib_hb: BBox = [
        F::of(lb.min.x),
        F::of(lb.min.y),
        F::of(lb.max.x),
        F::of(lb.max.y),
        F::of(lb.min.z),
        F::of(lb.max.z),
        F::of(lb.min.m),
        F::of(lb.max.m),
    ];
    ensure!(lib_hb == hb, "header-reread", "ShapeReader::header().bbox {:?} differs from the header bytes {:?}", lib_hb, hb);
    let names = ["xmin", "ymin", "xmax", "ymax", "zmin", "zmax", "mmin", "mmax"];
    for k in 0..4 {
        ensure!(
            num_eq(hb[k], whole[k]),
            "header-xy",
            "header {} = {:?}, extreme over all {} shapes = {:?}",
            names[k],
            hb[k],
            views_.len(),
            whole[k]
        );
    }
    for k in 4..6 {
        if ty.has_z() {
            ensure!(num_eq(hb[k], whole[k]), "header-z", "header {} = {:?}, extreme = {:?}", names[k], hb[k], whole[k]);
        } else {
            ensure!(hb[k].v() == 0.0, "header-absent-dim", "header {} = {:?} for type {} which has no Z", names[k], hb[k], ty.name());
        }
    }
    for k in 6..8 {
        if ty.has_m() {
            if all_real {
                ensure!(num_eq(hb[k], whole[k]), "header-m", "header {} = {:?}, extreme = {:?}", names[k], hb[k], whole[k]);
            }
        } else if ty != Ty::Multipatch {
            ensure!(hb[k].v() == 0.0, "header-absent-dim", "header {} = {:?} for type {} which has no M", names[k], hb[k], ty.name());
        }
    }
    // non-triviality
    let first = views_[0].parts.iter().flat_map(|p| p.pts.iter()).next().copied();
    let dims: Vec<usize> = (0..4).filter(|d| *d < 2 || (*d == 2 && ty.has_z()) || (*d == 3 && ty.has_m())).collect();
    let mut away = false;
    let mut special = false;
    for d_ in dims {
        let (mn, mx) = match d_ {
            0 => (whole[0], whole[2]),
            1 => (whole[1], whole[3]),
            2 => (whole[4], whole[5]),
            _ => (whole[6], whole[7]),
        };
        if let Some(f) = first {
            if f[d_].v() != mn.v() || f[d_].v() != mx.v() {
                away = true;
            }
        }
        for e in [mn, mx] {
            if e.v().is_infinite() || e.v().abs() >= 1e300 {
                special = true;
            }
        }
    }
    if special {
        ctx.class("special-extreme");
    }
    if !all_real && ty.carries_m() {
        ctx.class("has-nodata-measure");
    }
    if (views_.len() >= 2 && away) || special {
        ctx.nontrivial();
    }
    Ok(())
}

//! C16 — polygon and multipatch constructors close and orient rings, losing no vertex.

use proptest::prelude::*;
use serde::{Deserialize, Serialize};
#[allow(unused_imports)]
use shapefile::{multipatch, polygon};
use shapefile::{Multipatch, Point, PointM, PointZ, Polygon, PolygonM, PolygonRing, PolygonZ};
use vlib::gen;
use vlib::kinds::*;
use vlib::model::*;
use vlib::run::*;
use vlib::{ensure, fail};

#[derive(Serialize, Deserialize, Debug, Clone, Copy, Hash, PartialEq, Eq)]
pub enum How {
    New,
    WithRings,
    /// polygon! / multipatch! macro (only used at the arities the harness spells out)
    Macro,
    /// the macros' struct-like rules `{x: .., y: .., [z: ..,] [m: ..]}`
    MacroStruct,
}

#[derive(Serialize, Deserialize, Debug, Clone, Hash)]
pub struct RingCase {
    pub ty: Ty,
    pub how: How,
    pub rings: Vec<Part>,
}

pub struct Rings;

fn pt_eq(ty: Ty, a: &V, b: &V) -> bool {
    // the library's `==` on its point types: numeric equality of the fields the point type has
    let mut e = a[0].v() == b[0].v() && a[1].v() == b[1].v();
    if ty.has_z() {
        e &= a[2].v() == b[2].v();
    }
    if ty.carries_m() {
        e &= a[3].v() == b[3].v();
    }
    e
}

fn closed_input(ty: Ty, input: &[V]) -> Vec<V> {
    let mut v = input.to_vec();
    if let (Some(f), Some(l)) = (input.first(), input.last()) {
        if !pt_eq(ty, f, l) {
            v.push(*f);
        }
    }
    v
}

fn is_ring_kind(ty: Ty, kind: i32) -> bool {
    ty != Ty::Multipatch || kind >= 2
}

fn ring_strategy(ty: Ty, dyadic: bool) -> BoxedStrategy<Part> {
    let prof = if dyadic { gen::Profile::Dyadic } else { gen::Profile::NonNan };
    let cfg = gen::GenCfg::new(prof, false, 1, 9);
    let kinds = if ty == Ty::Multipatch { 0i32..=5 } else { 0i32..=1 };
    (kinds, proptest::collection::vec(gen::vertex(ty, cfg), 1..=9), 0u8..10, any::<bool>(), any::<u16>())
        .prop_map(move |(kind, mut pts, shape, rev, ix)| {
            match shape {
                0 | 1 | 2 => {
                    // already closed by a bit copy of the first vertex
                    let f = pts[0];
                    pts.push(f);
                }
                3 => {
                    // closed numerically but not bitwise (+0 / -0), or differing only in M / Z
                    let mut f = pts[0];
                    if f[0].v() == 0.0 {
                        f[0] = F::of(-f[0].v());
                    }
                    pts.push(f);
                }
                4 => {
                    // last vertex differs from the first only in the measure / height
                    let mut f = pts[0];
                    if ty.carries_m() {
                        f[3] = F::of(f[3].v() + 1.0);
                    } else if ty.has_z() {
                        f[2] = F::of(f[2].v() + 1.0);
                    }
                    pts.push(f);
                }
                5 => {
                    // collinear / zero area
                    let y = pts[0][1];
                    for p in pts.iter_mut() {
                        p[1] = y;
                    }
                }
                6 => {
                    // self-touching: repeat an inner vertex
                    let k = gen::pick(ix, pts.len());
                    let d = pts[k];
                    pts.insert(k, d);
                }
                _ => {}
            }
            if rev {
                pts.reverse();
            }
            Part { kind, pts }
        })
        .boxed()
}

/// A large simple ring on the dyadic grid: `n` vertices on a circle-like polygon (strictly convex lattice walk),
/// starting at a generated vertex, in either orientation, open or closed.
fn big_ring(kind: i32, n: usize, start: usize, rev: bool, close: bool, ox: i32, oy: i32) -> Part {
    // vertices on a parabola-like convex curve: x = i, y = i*(n-i)  (upper arc), closed through the x axis
    let mut pts: Vec<V> = (0..n)
        .map(|i| {
            let x = i as f64;
            let y = (i * (n - 1 - i)) as f64 / 256.0;
            v4(x / 4.0 + ox as f64, y + oy as f64, i as f64, -(i as f64))
        })
        .collect();
    pts.rotate_left(start % n);
    if close {
        let f = pts[0];
        pts.push(f);
    }
    if rev {
        pts.reverse();
    }
    Part { kind, pts }
}

fn check_ring(ty: Ty, i: usize, input: &Part, out: &Part) -> Result<(), Fail> {
    ensure!(out.kind == input.kind, "role-changed", "ring {}: declared kind {} came out as {}", i, input.kind, out.kind);
    if !is_ring_kind(ty, input.kind) {
        ensure!(out.pts == input.pts, "strip-or-fan-touched", "patch {} (kind {}) was modified: {:?} -> {:?}", i, input.kind, input.pts, out.pts);
        return Ok(());
    }
    // closed
    match (out.pts.first(), out.pts.last()) {
        (Some(f), Some(l)) => ensure!(pt_eq(ty, f, l), "not-closed", "ring {}: first {:?} != last {:?}", i, f, l),
        _ => fail!("vertex-lost", "ring {} came out empty from {} input vertices", i, input.pts.len()),
    }
    // vertex preservation
    let want = closed_input(ty, &input.pts);
    let mut rev = want.clone();
    rev.reverse();
    let kept = out.pts == want;
    let reversed = out.pts == rev;
    if ty == Ty::Multipatch {
        ensure!(kept, "vertices-changed", "multipatch ring {}: expected the input closed and otherwise untouched {:?}, got {:?}", i, want, out.pts);
    } else {
        ensure!(
            kept || reversed,
            "vertices-changed",
            "ring {}: output is neither the closed input nor its reversal: input {:?} -> output {:?}",
            i,
            input.pts,
            out.pts
        );
        // orientation where the exact area is computable
        if let Some(a) = exact_area2(&out.pts) {
            if out.kind == OUTER {
                ensure!(a >= 0, "orientation", "outer ring {} is counter-clockwise (exact shoelace sum {}): {:?}", i, a, out.pts);
            } else {
                ensure!(a <= 0, "orientation", "inner ring {} is clockwise (exact shoelace sum {}): {:?}", i, a, out.pts);
            }
        }
    }
    Ok(())
}

trait PolyKind: Kind {
    type P: Pt + Copy;
    fn via_new(r: PolygonRing<Self::P>) -> Self;
    fn via_rings(r: Vec<PolygonRing<Self::P>>) -> Self;
    fn rings_of(&self) -> Vec<PolygonRing<Self::P>>;
}
macro_rules! poly_kind {
    ($T:ident, $P:ident) => {
        impl PolyKind for $T {
            type P = $P;
            fn via_new(r: PolygonRing<$P>) -> Self {
                $T::new(r)
            }
            fn via_rings(r: Vec<PolygonRing<$P>>) -> Self {
                $T::with_rings(r)
            }
            fn rings_of(&self) -> Vec<PolygonRing<$P>> {
                self.rings().to_vec()
            }
        }
    };
}
poly_kind!(Polygon, Point);
poly_kind!(PolygonM, PointM);
poly_kind!(PolygonZ, PointZ);

// polygon! / multipatch! at the arities spelled out here (the macros need literal token structure,
// so the tuples are generated token by token)
macro_rules! poly1 {
    (2, $role:ident, $p:expr, [$($i:expr),*]) => {
        shapefile::polygon! { $role( $( ($p[$i][0].v(), $p[$i][1].v()) ),* ) }
    };
    (3, $role:ident, $p:expr, [$($i:expr),*]) => {
        shapefile::polygon! { $role( $( ($p[$i][0].v(), $p[$i][1].v(), $p[$i][3].v()) ),* ) }
    };
    (4, $role:ident, $p:expr, [$($i:expr),*]) => {
        shapefile::polygon! { $role( $( ($p[$i][0].v(), $p[$i][1].v(), $p[$i][2].v(), $p[$i][3].v()) ),* ) }
    };
}
macro_rules! poly2 {
    (2, $r1:ident, $r2:ident, $p:expr, [$($i:expr),*], $q:expr, [$($j:expr),*]) => {
        shapefile::polygon! {
            $r1( $( ($p[$i][0].v(), $p[$i][1].v()) ),* ),
            $r2( $( ($q[$j][0].v(), $q[$j][1].v()) ),* )
        }
    };
    (3, $r1:ident, $r2:ident, $p:expr, [$($i:expr),*], $q:expr, [$($j:expr),*]) => {
        shapefile::polygon! {
            $r1( $( ($p[$i][0].v(), $p[$i][1].v(), $p[$i][3].v()) ),* ),
            $r2( $( ($q[$j][0].v(), $q[$j][1].v(), $q[$j][3].v()) ),* )
        }
    };
    (4, $r1:ident, $r2:ident, $p:expr, [$($i:expr),*], $q:expr, [$($j:expr),*]) => {
        shapefile::polygon! {
            $r1( $( ($p[$i][0].v(), $p[$i][1].v(), $p[$i][2].v(), $p[$i][3].v()) ),* ),
            $r2( $( ($q[$j][0].v(), $q[$j][1].v(), $q[$j][2].v(), $q[$j][3].v()) ),* )
        }
    };
}
macro_rules! ring_by_arity {
    ($d:tt, $role:ident, $p:expr) => {
        match $p.len() {
            3 => Some(poly1!($d, $role, $p, [0, 1, 2]).view()),
            4 => Some(poly1!($d, $role, $p, [0, 1, 2, 3]).view()),
            5 => Some(poly1!($d, $role, $p, [0, 1, 2, 3, 4]).view()),
            _ => None,
        }
    };
}
macro_rules! two_rings {
    ($d:tt, $r1:ident, $r2:ident, $p:expr, $q:expr) => {
        match ($p.len(), $q.len()) {
            (3, 3) => Some(poly2!($d, $r1, $r2, $p, [0, 1, 2], $q, [0, 1, 2]).view()),
            (4, 3) => Some(poly2!($d, $r1, $r2, $p, [0, 1, 2, 3], $q, [0, 1, 2]).view()),
            (4, 4) => Some(poly2!($d, $r1, $r2, $p, [0, 1, 2, 3], $q, [0, 1, 2, 3]).view()),
            (5, 4) => Some(poly2!($d, $r1, $r2, $p, [0, 1, 2, 3, 4], $q, [0, 1, 2, 3]).view()),
            _ => None,
        }
    };
}
macro_rules! macro_polygon {
    ($d:tt, $rings:expr) => {{
        let r = $rings;
        match r.len() {
            1 => {
                let p = &r[0].pts;
                if r[0].kind == OUTER {
                    ring_by_arity!($d, Outer, p)
                } else {
                    ring_by_arity!($d, Inner, p)
                }
            }
            2 => {
                let (p, q) = (&r[0].pts, &r[1].pts);
                match (r[0].kind, r[1].kind) {
                    (OUTER, INNER) => two_rings!($d, Outer, Inner, p, q),
                    (INNER, OUTER) => two_rings!($d, Inner, Outer, p, q),
                    (OUTER, OUTER) => two_rings!($d, Outer, Outer, p, q),
                    _ => two_rings!($d, Inner, Inner, p, q),
                }
            }
            _ => None,
        }
    }};
}

macro_rules! poly1s {
    (2, $role:ident, $p:expr, [$($i:expr),*]) => {
        shapefile::polygon! { $role( $( {x: $p[$i][0].v(), y: $p[$i][1].v()} ),* ) }
    };
    (3, $role:ident, $p:expr, [$($i:expr),*]) => {
        shapefile::polygon! { $role( $( {x: $p[$i][0].v(), y: $p[$i][1].v(), m: $p[$i][3].v()} ),* ) }
    };
    (4, $role:ident, $p:expr, [$($i:expr),*]) => {
        shapefile::polygon! { $role( $( {x: $p[$i][0].v(), y: $p[$i][1].v(), z: $p[$i][2].v(), m: $p[$i][3].v()} ),* ) }
    };
}
macro_rules! poly2s {
    (2, $r1:ident, $r2:ident, $p:expr, [$($i:expr),*], $q:expr, [$($j:expr),*]) => {
        shapefile::polygon! {
            $r1( $( {x: $p[$i][0].v(), y: $p[$i][1].v()} ),* ),
            $r2( $( {x: $q[$j][0].v(), y: $q[$j][1].v()} ),* )
        }
    };
    (3, $r1:ident, $r2:ident, $p:expr, [$($i:expr),*], $q:expr, [$($j:expr),*]) => {
        shapefile::polygon! {
            $r1( $( {x: $p[$i][0].v(), y: $p[$i][1].v(), m: $p[$i][3].v()} ),* ),
            $r2( $( {x: $q[$j][0].v(), y: $q[$j][1].v(), m: $q[$j][3].v()} ),* )
        }
    };
    (4, $r1:ident, $r2:ident, $p:expr, [$($i:expr),*], $q:expr, [$($j:expr),*]) => {
        shapefile::polygon! {
            $r1( $( {x: $p[$i][0].v(), y: $p[$i][1].v(), z: $p[$i][2].v(), m: $p[$i][3].v()} ),* ),
            $r2( $( {x: $q[$j][0].v(), y: $q[$j][1].v(), z: $q[$j][2].v(), m: $q[$j][3].v()} ),* )
        }
    };
}
macro_rules! ring_by_arity_s {
    ($d:tt, $role:ident, $p:expr) => {
        match $p.len() {
            3 => Some(poly1s!($d, $role, $p, [0, 1, 2]).view()),
            4 => Some(poly1s!($d, $role, $p, [0, 1, 2, 3]).view()),
            5 => Some(poly1s!($d, $role, $p, [0, 1, 2, 3, 4]).view()),
            _ => None,
        }
    };
}
macro_rules! two_rings_s {
    ($d:tt, $r1:ident, $r2:ident, $p:expr, $q:expr) => {
        match ($p.len(), $q.len()) {
            (3, 3) => Some(poly2s!($d, $r1, $r2, $p, [0, 1, 2], $q, [0, 1, 2]).view()),
            (4, 3) => Some(poly2s!($d, $r1, $r2, $p, [0, 1, 2, 3], $q, [0, 1, 2]).view()),
            (4, 4) => Some(poly2s!($d, $r1, $r2, $p, [0, 1, 2, 3], $q, [0, 1, 2, 3]).view()),
            (5, 4) => Some(poly2s!($d, $r1, $r2, $p, [0, 1, 2, 3, 4], $q, [0, 1, 2, 3]).view()),
            _ => None,
        }
    };
}
macro_rules! macro_polygon_s {
    ($d:tt, $rings:expr) => {{
        let r = $rings;
        match r.len() {
            1 => {
                let p = &r[0].pts;
                if r[0].kind == OUTER {
                    ring_by_arity_s!($d, Outer, p)
                } else {
                    ring_by_arity_s!($d, Inner, p)
                }
            }
            2 => {
                let (p, q) = (&r[0].pts, &r[1].pts);
                match (r[0].kind, r[1].kind) {
                    (OUTER, INNER) => two_rings_s!($d, Outer, Inner, p, q),
                    (INNER, OUTER) => two_rings_s!($d, Inner, Outer, p, q),
                    (OUTER, OUTER) => two_rings_s!($d, Outer, Outer, p, q),
                    _ => two_rings_s!($d, Inner, Inner, p, q),
                }
            }
            _ => None,
        }
    }};
}

macro_rules! mp1 {
    ($k:ident, $p:expr, [$($i:expr),*]) => {
        shapefile::multipatch!( $k( $( ($p[$i][0].v(), $p[$i][1].v(), $p[$i][2].v(), $p[$i][3].v()) ),* ) )
    };
}
macro_rules! mp2 {
    ($k1:ident, $k2:ident, $p:expr, [$($i:expr),*], $q:expr, [$($j:expr),*]) => {
        shapefile::multipatch!(
            $k1( $( ($p[$i][0].v(), $p[$i][1].v(), $p[$i][2].v(), $p[$i][3].v()) ),* ),
            $k2( $( ($q[$j][0].v(), $q[$j][1].v(), $q[$j][2].v(), $q[$j][3].v()) ),* )
        )
    };
}

fn macro_multipatch(r: &[Part]) -> Option<Geom> {
    if r.len() == 1 && r[0].pts.len() == 3 {
        let p = &r[0].pts;
        return Some(
            match r[0].kind {
                0 => mp1!(TriangleStrip, p, [0, 1, 2]),
                1 => mp1!(TriangleFan, p, [0, 1, 2]),
                2 => mp1!(OuterRing, p, [0, 1, 2]),
                3 => mp1!(InnerRing, p, [0, 1, 2]),
                4 => mp1!(FirstRing, p, [0, 1, 2]),
                _ => mp1!(Ring, p, [0, 1, 2]),
            }
            .view(),
        );
    }
    if r.len() == 1 && r[0].pts.len() == 4 {
        let p = &r[0].pts;
        return Some(
            match r[0].kind {
                0 => mp1!(TriangleStrip, p, [0, 1, 2, 3]),
                1 => mp1!(TriangleFan, p, [0, 1, 2, 3]),
                2 => mp1!(OuterRing, p, [0, 1, 2, 3]),
                3 => mp1!(InnerRing, p, [0, 1, 2, 3]),
                4 => mp1!(FirstRing, p, [0, 1, 2, 3]),
                _ => mp1!(Ring, p, [0, 1, 2, 3]),
            }
            .view(),
        );
    }
    if r.len() == 2 && r[0].pts.len() == 3 && r[1].pts.len() == 4 {
        let (p, q) = (&r[0].pts, &r[1].pts);
        return match (r[0].kind, r[1].kind) {
            (2, 3) => Some(mp2!(OuterRing, InnerRing, p, [0, 1, 2], q, [0, 1, 2, 3]).view()),
            (4, 5) => Some(mp2!(FirstRing, Ring, p, [0, 1, 2], q, [0, 1, 2, 3]).view()),
            (0, 2) => Some(mp2!(TriangleStrip, OuterRing, p, [0, 1, 2], q, [0, 1, 2, 3]).view()),
            (3, 1) => Some(mp2!(InnerRing, TriangleFan, p, [0, 1, 2], q, [0, 1, 2, 3]).view()),
            (5, 0) => Some(mp2!(Ring, TriangleStrip, p, [0, 1, 2], q, [0, 1, 2, 3]).view()),
            (1, 4) => Some(mp2!(TriangleFan, FirstRing, p, [0, 1, 2], q, [0, 1, 2, 3]).view()),
            _ => None,
        };
    }
    None
}

macro_rules! mp1s {
    ($k:ident, $p:expr, [$($i:expr),*]) => {
        shapefile::multipatch!( $k( $( {x: $p[$i][0].v(), y: $p[$i][1].v(), z: $p[$i][2].v(), m: $p[$i][3].v()} ),* ) )
    };
}
macro_rules! mp2s {
    ($k1:ident, $k2:ident, $p:expr, [$($i:expr),*], $q:expr, [$($j:expr),*]) => {
        shapefile::multipatch!(
            $k1( $( {x: $p[$i][0].v(), y: $p[$i][1].v(), z: $p[$i][2].v(), m: $p[$i][3].v()} ),* ),
            $k2( $( {x: $q[$j][0].v(), y: $q[$j][1].v(), z: $q[$j][2].v(), m: $q[$j][3].v()} ),* )
        )
    };
}

fn macro_multipatch_s(r: &[Part]) -> Option<Geom> {
    if r.len() == 1 && r[0].pts.len() == 3 {
        let p = &r[0].pts;
        return Some(
            match r[0].kind {
                0 => mp1s!(TriangleStrip, p, [0, 1, 2]),
                1 => mp1s!(TriangleFan, p, [0, 1, 2]),
                2 => mp1s!(OuterRing, p, [0, 1, 2]),
                3 => mp1s!(InnerRing, p, [0, 1, 2]),
                4 => mp1s!(FirstRing, p, [0, 1, 2]),
                _ => mp1s!(Ring, p, [0, 1, 2]),
            }
            .view(),
        );
    }
    if r.len() == 1 && r[0].pts.len() == 4 {
        let p = &r[0].pts;
        return Some(
            match r[0].kind {
                0 => mp1s!(TriangleStrip, p, [0, 1, 2, 3]),
                1 => mp1s!(TriangleFan, p, [0, 1, 2, 3]),
                2 => mp1s!(OuterRing, p, [0, 1, 2, 3]),
                3 => mp1s!(InnerRing, p, [0, 1, 2, 3]),
                4 => mp1s!(FirstRing, p, [0, 1, 2, 3]),
                _ => mp1s!(Ring, p, [0, 1, 2, 3]),
            }
            .view(),
        );
    }
    if r.len() == 2 && r[0].pts.len() == 3 && r[1].pts.len() == 4 {
        let (p, q) = (&r[0].pts, &r[1].pts);
        return match (r[0].kind, r[1].kind) {
            (2, 3) => Some(mp2s!(OuterRing, InnerRing, p, [0, 1, 2], q, [0, 1, 2, 3]).view()),
            (4, 5) => Some(mp2s!(FirstRing, Ring, p, [0, 1, 2], q, [0, 1, 2, 3]).view()),
            (0, 2) => Some(mp2s!(TriangleStrip, OuterRing, p, [0, 1, 2], q, [0, 1, 2, 3]).view()),
            (3, 1) => Some(mp2s!(InnerRing, TriangleFan, p, [0, 1, 2], q, [0, 1, 2, 3]).view()),
            (5, 0) => Some(mp2s!(Ring, TriangleStrip, p, [0, 1, 2], q, [0, 1, 2, 3]).view()),
            (1, 4) => Some(mp2s!(TriangleFan, FirstRing, p, [0, 1, 2], q, [0, 1, 2, 3]).view()),
            _ => None,
        };
    }
    None
}

fn build_polygon<K: PolyKind>(c: &RingCase) -> Geom {
    match c.how {
        How::New if c.rings.len() == 1 => K::via_new(ring_of::<K::P>(&c.rings[0])).view(),
        _ => K::via_rings(c.rings.iter().map(ring_of::<K::P>).collect()).view(),
    }
}

fn rebuild<K: PolyKind>(c: &RingCase) -> (Geom, Geom) {
    let p = K::via_rings(c.rings.iter().map(ring_of::<K::P>).collect());
    let again = K::via_rings(p.rings_of());
    (p.view(), again.view())
}

impl Prop for Rings {
    type Case = RingCase;
    fn name() -> &'static str {
        "rings"
    }
    fn rule() -> &'static str {
        "proptest: Polygon / PolygonM / PolygonZ / Multipatch built by new, with_rings / with_parts and the polygon! / multipatch! macros \
         (arities 3-5 x 1-2 rings, every role combination) from 1-6 rings of 1-9 vertices, declared role arbitrary, open / already closed \
         (bit copy, +-0 copy, copy differing only in M or Z), collinear, self-touching, either orientation; half the cases on the dyadic \
         domain where the shoelace sum is exact (recomputed in i128), half on arbitrary non-NaN doubles. Oracle per output ring: first == \
         last; vertex sequence is closed(input) or its full reversal, bit for bit; ring count and declared roles unchanged; Outer => exact \
         sum >= 0, Inner => <= 0; with_rings(p.rings()) is bit-identical to p when every ring has non-zero exact area; multipatch rings \
         closed but never reordered, strips and fans untouched; macro output == constructor output. \
         Non-trivial: >=2 rings with at least one needing closure and one needing reversal"
    }
    fn check(c: &RingCase, ctx: &mut Ctx) -> Result<(), Fail> {
        let out = match c.ty {
            Ty::Polygon => build_polygon::<Polygon>(c),
            Ty::PolygonM => build_polygon::<PolygonM>(c),
            Ty::PolygonZ => build_polygon::<PolygonZ>(c),
            _ => match c.how {
                How::New if c.rings.len() == 1 => Multipatch::new(patch_of(&c.rings[0])).view(),
                _ => Multipatch::with_parts(c.rings.iter().map(patch_of).collect()).view(),
            },
        };
        ensure!(out.parts.len() == c.rings.len(), "ring-count", "{} rings in, {} out", c.rings.len(), out.parts.len());
        let mut needs_close = false;
        let mut needs_rev = false;
        for (i, (inp, o)) in c.rings.iter().zip(&out.parts).enumerate() {
            check_ring(c.ty, i, inp, o)?;
            if is_ring_kind(c.ty, inp.kind) {
                let ci = closed_input(c.ty, &inp.pts);
                if ci.len() != inp.pts.len() {
                    needs_close = true;
                }
                if o.pts != ci {
                    needs_rev = true;
                }
            }
        }
        if c.rings.len() >= 2 && needs_close && (needs_rev || c.ty == Ty::Multipatch) {
            ctx.nontrivial();
        }
        if needs_close {
            ctx.class("a-ring-needed-closure");
        }
        if needs_rev {
            ctx.class("a-ring-was-reversed");
        }
        ctx.class(c.ty.name());
        // macro route == constructor route
        if c.how == How::Macro || c.how == How::MacroStruct {
            let m = match (c.ty, c.how) {
                (Ty::Polygon, How::Macro) => macro_polygon!(2, &c.rings),
                (Ty::PolygonM, How::Macro) => macro_polygon!(3, &c.rings),
                (Ty::PolygonZ, How::Macro) => macro_polygon!(4, &c.rings),
                (Ty::Polygon, _) => macro_polygon_s!(2, &c.rings),
                (Ty::PolygonM, _) => macro_polygon_s!(3, &c.rings),
                (Ty::PolygonZ, _) => macro_polygon_s!(4, &c.rings),
                (_, How::Macro) => macro_multipatch(&c.rings),
                _ => macro_multipatch_s(&c.rings),
            };
            if let Some(m) = m {
                ctx.class(if c.how == How::Macro { "macro-route(tuple rules)" } else { "macro-route(struct rules)" });
                ensure!(m == out, "macro-differs", "macro output {:?} differs from the constructor output {:?}", m.parts, out.parts);
            }
        }
        // rebuilding from its own rings changes nothing when every ring has a non-zero exact area
        if c.ty != Ty::Multipatch {
            let (p, again) = match c.ty {
                Ty::Polygon => rebuild::<Polygon>(c),
                Ty::PolygonM => rebuild::<PolygonM>(c),
                _ => rebuild::<PolygonZ>(c),
            };
            if p.parts.iter().all(|r| matches!(exact_area2(&r.pts), Some(a) if a != 0)) {
                ctx.class("rebuild-checked");
                ensure!(p == again, "rebuild-changes", "with_rings(p.rings()) differs from p: {:?} -> {:?}", p.parts, again.parts);
            }
        } else {
            let p = Multipatch::with_parts(c.rings.iter().map(patch_of).collect());
            let again = Multipatch::with_parts(p.patches().clone());
            ensure!(p.view() == again.view(), "rebuild-changes", "Multipatch::with_parts(p.patches()) differs from p");
        }
        Ok(())
    }
}

impl RandomProp for Rings {
    fn strategy(_env: &Env) -> BoxedStrategy<RingCase> {
        let tys = prop_oneof![Just(Ty::Polygon), Just(Ty::PolygonM), Just(Ty::PolygonZ), Just(Ty::Multipatch)];
        let hows = prop_oneof![2 => Just(How::New), 3 => Just(How::WithRings), 2 => Just(How::Macro), 2 => Just(How::MacroStruct)];
        // coordinate domain: 0 = dyadic near the origin, 1 = dyadic far from the origin, 2 = tiny rings far from
        // the origin (exact edge-wise sum, catastrophic for naive formulas), 3.. = arbitrary non-NaN doubles
        let base = || prop_oneof![
            3 => (-8_388_608i64..=8_388_608).prop_map(|k| k as f64),
            1 => Just(500_000.0f64),
            1 => Just(4_649_776.0f64),
        ];
        let sizes = prop_oneof![Just(127usize), Just(128), Just(129), Just(130), Just(255), Just(256), Just(257), Just(258), Just(384), Just(385), Just(512), Just(513), 100usize..600];
        let big = (
            prop_oneof![Just(Ty::Polygon), Just(Ty::PolygonM), Just(Ty::PolygonZ), Just(Ty::Multipatch)],
            proptest::collection::vec((0i32..=5, sizes, any::<u16>(), any::<bool>(), any::<bool>(), -8000i32..8000, -8000i32..8000), 1..=3),
        )
            .prop_map(|(ty, rs)| RingCase {
                ty,
                how: How::WithRings,
                rings: rs
                    .into_iter()
                    .map(|(k, n, start, rev, close, ox, oy)| big_ring(if ty == Ty::Multipatch { k } else { k % 2 }, n, start as usize, rev, close, ox, oy))
                    .map(|mut part| {
                        // only the dimensions the point type carries
                        for v in part.pts.iter_mut() {
                            if !ty.has_z() {
                                v[2] = F(0);
                            }
                            if !ty.carries_m() {
                                v[3] = F(0);
                            }
                        }
                        part
                    })
                    .collect(),
            })
            .boxed();
        let small = (tys, hows, 0u8..7, base(), base())
            .prop_flat_map(|(ty, how, domain, bx, by)| {
                // 6 = dyadic rings scaled by 2^-16: exact areas between 2^-49 and 10^-6
                let dyadic = domain <= 2 || domain == 6;
                let n = if (how == How::Macro || how == How::MacroStruct) { 1usize..=2 } else { 1usize..=6 };
                let ring = if (how == How::Macro || how == How::MacroStruct) {
                    // macro arities: 3..=5 vertices, no pre-closing so that the arity is what the harness spells out
                    let cfg = gen::GenCfg::new(if dyadic { gen::Profile::Dyadic } else { gen::Profile::NonNan }, false, 1, 5);
                    let kinds = if ty == Ty::Multipatch { 0i32..=5 } else { 0i32..=1 };
                    (kinds, proptest::collection::vec(gen::vertex(ty, cfg), 3..=5)).prop_map(|(kind, pts)| Part { kind, pts }).boxed()
                } else {
                    ring_strategy(ty, dyadic)
                };
                (proptest::collection::vec(ring, n), 0u8..10, any::<bool>(), any::<bool>()).prop_map(move |(mut rings, dup, dup_rev, dup_open)| {
                    // one case in five repeats a ring right after itself (same role; possibly reversed / re-opened)
                    if dup < 2 && (how != How::Macro && how != How::MacroStruct) {
                        let k = rings.len() - 1;
                        let mut copy = rings[k].clone();
                        if dup_open && copy.pts.len() > 2 && copy.pts.first() == copy.pts.last() {
                            copy.pts.pop();
                        }
                        if dup_rev {
                            copy.pts.reverse();
                        }
                        rings.push(copy);
                    }
                    if domain == 6 {
                        for r in rings.iter_mut() {
                            for v in r.pts.iter_mut() {
                                v[0] = F::of(v[0].v() / 65536.0);
                                v[1] = F::of(v[1].v() / 65536.0);
                            }
                        }
                    }
                    if domain == 1 || domain == 2 {
                        let scale = if domain == 2 { 1.0 / 1024.0 } else { 1.0 / 16.0 };
                        for r in rings.iter_mut() {
                            for v in r.pts.iter_mut() {
                                // keep multiples of 1/256: shrink the local coordinates, then move them far away
                                let lx = (v[0].v() * scale * 256.0).trunc() / 256.0;
                                let ly = (v[1].v() * scale * 256.0).trunc() / 256.0;
                                v[0] = F::of(lx + bx);
                                v[1] = F::of(ly + by);
                            }
                        }
                    }
                    RingCase { ty, how, rings }
                })
            })
            .boxed();
        prop_oneof![40 => small, 1 => big].boxed()
    }
    fn cases(env: &Env) -> u64 {
        env.n(4 * 75_000, 4 * 5_000_000)
    }
}

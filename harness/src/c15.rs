//! C15 — reader results do not depend on what was called before (bounded-exhaustive histories
//! against an explicit reference state machine).

use serde::{Deserialize, Serialize};
use shapefile::dbase;
use shapefile::{Point, PointZ, Polyline, PolylineZ, Reader, Shape, ShapeReader, ShapeWriter, Writer};
use std::convert::TryInto;
use std::io::Cursor;
use vlib::libops::*;
use vlib::run::*;
use vlib::{ensure, fail};

#[derive(Serialize, Deserialize, Debug, Clone, Copy, Hash, PartialEq, Eq)]
pub enum Op {
    /// iterate and take at most j items (255 = until the iterator ends)
    Iter(u8),
    Nth(u8),
    Seek(u8),
    Count,
    /// a new iterator consumed through `Iterator::nth(s)` (what skip / step_by use): it must return the s-th
    /// item from the reader's position and leave the reader right after it
    IterSkip(u8),
    /// random access requesting a type the file does not hold (`read_nth_shape_as::<Multipoint>`): it fails, and must
    /// not disturb what later calls return
    NthAs(u8),
    /// a typed iteration requesting a type the file does not hold, one `next()` call
    IterAs,
    /// the complete Reader's `read()` (by `&mut self`): every remaining pair
    ReadAll,
    /// a new iterator consumed through `Iterator::last()`: the last record if any record remains from the reader's
    /// position, None otherwise; the reader is at the end afterwards
    IterLast,
    /// a new iterator consumed through `Iterator::count()`: the number of records from the reader's position
    IterCount,
}

#[derive(Serialize, Deserialize, Debug, Clone, Hash)]
pub struct HistCase {
    pub n: u8,
    pub equal_sizes: bool,
    /// 0 = ShapeReader with index, 1 = complete Reader (shp+shx+dbf), 2 = ShapeReader without index,
    /// 3 = ShapeReader::from_path (files on disk), 4 = Reader::from_path
    /// 5 = ShapeReader with index driven by the first half of the ops (rounded up), then handed to Reader::new with a
    /// fresh dbase reader and driven by the rest; 6 = complete Reader around a ShapeReader WITHOUT index
    pub reader: u8,
    pub ops: Vec<Op>,
    /// 0 = files as the library writes them; 1 = the same records re-laid out as a foreign producer may: stored in
    /// reverse physical order with filler bytes between them (the .shx lists them in logical order); 2 = records of
    /// a measured multi-part type (PolylineZ) whose measures are all NO_DATA
    #[serde(default)]
    pub layout: u8,
}

/// Record i is identifiable by its first x coordinate == i.
fn build_files(n: usize, equal: bool) -> (Vec<u8>, Vec<u8>, Vec<u8>) {
    build_files_sized(n, equal, 0)
}

/// `extra` more points per record: with ~185 points a record is ~3 KB, so three of them cross the 8 KiB buffer
/// edge of the BufReader used by the path-based readers.
fn build_files_sized(n: usize, equal: bool, extra: usize) -> (Vec<u8>, Vec<u8>, Vec<u8>) {
    build_files_kind(n, equal, extra, false)
}

/// `measured`: PolylineZ records whose measures are all NO_DATA (the documented way to say "no measure").
fn build_files_kind(n: usize, equal: bool, extra: usize, measured: bool) -> (Vec<u8>, Vec<u8>, Vec<u8>) {
    let mut shp = Cursor::new(Vec::new());
    let mut shx = Cursor::new(Vec::new());
    let mut dbf = Cursor::new(Vec::new());
    {
        let sw = ShapeWriter::with_shx(&mut shp, &mut shx);
        let tw = dbase::TableWriterBuilder::new()
            .add_numeric_field("idx".try_into().unwrap(), 10, 0)
            .build_with_dest(&mut dbf);
        let mut w = Writer::new(sw, tw);
        for i in 0..n {
            let mut rec = dbase::Record::default();
            rec.insert("idx".to_string(), dbase::FieldValue::Numeric(Some(i as f64)));
            if measured {
                let npts = if equal { 3 } else { i * 5 + 2 };
                let pts: Vec<PointZ> = (0..npts).map(|k| PointZ::new(if k == 0 { i as f64 } else { 100.0 + k as f64 }, k as f64, 7.0 + k as f64, shapefile::NO_DATA)).collect();
                w.write_shape_and_record(&PolylineZ::new(pts), &rec).expect("write");
            } else if equal && extra == 0 {
                w.write_shape_and_record(&Point::new(i as f64, 0.5), &rec).expect("write");
            } else {
                // i + 2 points: pairwise different record sizes (equal sizes when `equal` and big)
                let npts = if equal { 2 + extra } else { i * 13 + 2 + extra };
                let pts: Vec<Point> = (0..npts).map(|k| Point::new(if k == 0 { i as f64 } else { 100.0 + k as f64 }, k as f64)).collect();
                w.write_shape_and_record(&Polyline::new(pts), &rec).expect("write");
            }
        }
    }
    (shp.into_inner(), shx.into_inner(), dbf.into_inner())
}

/// Same records, reverse physical order, 4 + 2k filler bytes before the k-th stored record.
fn relayout(shp: &[u8], shx: &[u8]) -> (Vec<u8>, Vec<u8>) {
    let n = (shx.len() - 100) / 8;
    let recs: Vec<&[u8]> = (0..n)
        .map(|i| {
            let off = u32::from_be_bytes(shx[100 + 8 * i..104 + 8 * i].try_into().unwrap()) as usize * 2;
            let len = u32::from_be_bytes(shx[104 + 8 * i..108 + 8 * i].try_into().unwrap()) as usize * 2;
            &shp[off..off + 8 + len]
        })
        .collect();
    let mut out = shp[..100].to_vec();
    let mut offs = vec![0usize; n];
    for (k, i) in (0..n).rev().enumerate() {
        out.extend(std::iter::repeat(0xEEu8).take(4 + 2 * k));
        offs[i] = out.len();
        out.extend_from_slice(recs[i]);
    }
    let words = (out.len() / 2) as u32;
    out[24..28].copy_from_slice(&words.to_be_bytes());
    let mut x = shx.to_vec();
    for i in 0..n {
        x[100 + 8 * i..104 + 8 * i].copy_from_slice(&((offs[i] / 2) as u32).to_be_bytes());
    }
    (out, x)
}

fn ident(s: &Shape) -> Option<usize> {
    match s {
        Shape::Point(p) => Some(p.x as usize),
        Shape::Polyline(p) => Some(p.parts()[0][0].x as usize),
        Shape::PolylineZ(p) => Some(p.parts()[0][0].x as usize),
        _ => None,
    }
}

/// Reference state machine. `pos` = set of positions the next iteration may start from;
/// `exact` = the last position-defining event was open / successful random access / seek.
struct Model {
    n: usize,
    pos: Vec<usize>,
    exact: bool,
}

#[derive(Debug)]
enum Item {
    Rec(usize),
    Err(String),
}

impl Model {
    /// `items`: what the iteration yielded; `ended`: it returned None after them.
    fn iterate(&mut self, items: &[Item], ended: bool) -> Result<(), String> {
        let mut cands: Vec<usize> = self.pos.clone();
        if !self.exact && !cands.contains(&0) {
            cands.push(0);
        }
        let recs: Vec<usize> = items
            .iter()
            .filter_map(|i| match i {
                Item::Rec(r) => Some(*r),
                _ => None,
            })
            .collect();
        let err_at = items.iter().position(|i| matches!(i, Item::Err(_)));
        if self.exact {
            if let Some(k) = err_at {
                return Err(format!("iteration yields an error at item {}: {:?}", k, items[k]));
            }
        }
        let mut ok: Vec<usize> = Vec::new();
        for p in cands.iter().copied() {
            let expect: Vec<usize> = (p..self.n).collect();
            let fits = if err_at.is_some() {
                // only the items before the first error are consulted
                let k = err_at.unwrap();
                recs.len() >= k && expect.len() >= k && recs[..k] == expect[..k]
            } else if ended {
                recs == expect
            } else {
                recs.len() <= expect.len() && recs[..] == expect[..recs.len()]
            };
            if fits {
                ok.push(p);
            }
        }
        if ok.is_empty() {
            return Err(format!(
                "iteration yielded {:?}{} but the reader was positioned at {:?}{} of {} records",
                items,
                if ended { " then ended" } else { "" },
                self.pos,
                if self.exact { "" } else { " (or may restart at 0)" },
                self.n
            ));
        }
        let consumed = err_at.unwrap_or(recs.len());
        self.pos = ok.iter().map(|p| (p + consumed).min(self.n)).collect();
        self.pos.sort();
        self.pos.dedup();
        self.exact = false;
        Ok(())
    }
}

impl Model {
    /// `last`: Some(what `last()` returned) or `count`: Some(what `count()` returned), on a new iterator.
    fn consume_all(&mut self, last: Option<&Option<Result<Option<usize>, String>>>, count: Option<usize>) -> Result<(), String> {
        let mut cands: Vec<usize> = self.pos.clone();
        if !self.exact && !cands.contains(&0) {
            cands.push(0);
        }
        let mut fits = false;
        for p in cands {
            let remaining = self.n.saturating_sub(p);
            if let Some(got) = last {
                match got {
                    None => fits |= remaining == 0,
                    Some(Ok(Some(r))) => fits |= remaining > 0 && *r == self.n - 1,
                    Some(Ok(None)) => {}
                    Some(Err(_)) => fits |= !self.exact,
                }
            }
            if let Some(c) = count {
                fits |= c == remaining;
            }
        }
        if !fits {
            return Err(format!(
                "a new iterator consumed through {} but the reader was positioned at {:?}{} of {} records",
                match (last, count) {
                    (Some(g), _) => format!("last() returned {:?}", g),
                    (_, Some(c)) => format!("count() returned {}", c),
                    _ => String::new(),
                },
                self.pos,
                if self.exact { "" } else { " (or may restart at 0)" },
                self.n
            ));
        }
        self.pos = vec![self.n];
        self.exact = false;
        Ok(())
    }

    /// `got`: what `nth(s)` returned.
    fn skip_nth(&mut self, s: usize, got: &Option<Result<Option<usize>, String>>) -> Result<(), String> {
        let mut cands: Vec<usize> = self.pos.clone();
        if !self.exact && !cands.contains(&0) {
            cands.push(0);
        }
        let mut next = Vec::new();
        for p in cands {
            match got {
                None => {
                    if p + s >= self.n {
                        next.push(self.n);
                    }
                }
                Some(Ok(Some(r))) => {
                    if p + s < self.n && *r == p + s {
                        next.push(p + s + 1);
                    }
                }
                Some(Ok(None)) => {}
                Some(Err(_)) => {
                    if !self.exact {
                        next.push((p + s + 1).min(self.n));
                    }
                }
            }
        }
        if next.is_empty() {
            return Err(format!(
                "nth({}) on a new iterator returned {:?} but the reader was positioned at {:?}{} of {} records",
                s,
                got,
                self.pos,
                if self.exact { "" } else { " (or may restart at 0)" },
                self.n
            ));
        }
        next.sort();
        next.dedup();
        self.pos = next;
        self.exact = false;
        Ok(())
    }
}

impl Model {
    /// One `next()` of a typed iterator requesting a type the file does not hold: an error while records remain,
    /// None at the end. Afterwards the failed record counts as consumed or not.
    fn typed_miss(&mut self, is_err: bool, is_none: bool, with_index: bool) -> Result<(), String> {
        let mut cands: Vec<usize> = self.pos.clone();
        if !self.exact && !cands.contains(&0) {
            cands.push(0);
        }
        let mut next = Vec::new();
        for p in cands {
            if p < self.n && is_err {
                next.push(p);
                next.push(p + 1);
                if !with_index {
                    // without an index nothing tells where the next record starts once a read failed half-way:
                    // the reader may have nothing more to give
                    next.push(self.n);
                }
            }
            if p >= self.n && is_none {
                next.push(self.n);
            }
        }
        if next.is_empty() {
            return Err(format!(
                "a typed iteration of the wrong type returned {} but the reader was positioned at {:?}{} of {} records",
                if is_err { "an error" } else if is_none { "None" } else { "a value" },
                self.pos,
                if self.exact { "" } else { " (or may restart at 0)" },
                self.n
            ));
        }
        next.sort();
        next.dedup();
        self.pos = next;
        self.exact = false;
        Ok(())
    }
}

fn take_items<I: Iterator<Item = Result<Option<usize>, String>>>(mut it: I, j: u8, n: usize) -> (Vec<Item>, bool) {
    let limit = if j == 255 { n + 3 } else { j as usize };
    let mut out = Vec::new();
    let mut ended = false;
    for _ in 0..limit {
        match it.next() {
            None => {
                ended = true;
                break;
            }
            Some(Ok(Some(i))) => out.push(Item::Rec(i)),
            Some(Ok(None)) => out.push(Item::Err("unidentifiable shape".into())),
            Some(Err(e)) => {
                out.push(Item::Err(e));
                break;
            }
        }
    }
    (out, ended)
}

fn drive_shape_reader<T: std::io::Read + std::io::Seek>(mut r: ShapeReader<T>, with_index: bool, c: &HistCase, n: usize, model: &mut Model) -> Result<(), Fail> {
    drive_shape_reader_ref(&mut r, with_index, c, n, model)
}

fn drive_shape_reader_ref<T: std::io::Read + std::io::Seek>(r: &mut ShapeReader<T>, with_index: bool, c: &HistCase, n: usize, model: &mut Model) -> Result<(), Fail> {
    let whole = |ops: &[Op], k: usize| format!("history {:?} (failing at op #{})", ops, k);
    for (k, op) in c.ops.iter().enumerate() {
        match op {
            Op::Count => {
                if with_index {
                    ensure!(r.shape_count().ok() == Some(n), "count-changes", "{}: shape_count = {:?}", whole(&c.ops, k), r.shape_count().ok());
                }
            }
            Op::Seek(x) => {
                r.seek(*x as usize).map_err(|e| Fail::new("seek-error", format!("{}: {}", whole(&c.ops, k), err_str(&e))))?;
                model.pos = vec![(*x as usize).min(n)];
                model.exact = true;
            }
            Op::Nth(i) if !with_index => {
                // without an index the statement says nothing about what random access returns; if it does deliver a
                // shape it is a successful random access (the next iteration starts at the first record), if it delivers
                // nothing the records not yet consumed are still not consumed (or the reader restarts)
                let i = *i as usize;
                match r.read_nth_shape(i) {
                    Some(Ok(s)) => {
                        ensure!(i < n && ident(&s) == Some(i), "nth-wrong", "{}: read_nth_shape({}) without index returned record {:?}", whole(&c.ops, k), i, ident(&s));
                        model.pos = vec![0];
                        model.exact = true;
                    }
                    Some(Err(_)) | None => model.exact = false,
                }
            }
            Op::Nth(i) => {
                let i = *i as usize;
                match r.read_nth_shape(i) {
                    None => ensure!(i >= n, "nth-wrong", "{}: read_nth_shape({}) is None with {} records", whole(&c.ops, k), i, n),
                    Some(Ok(s)) => {
                        ensure!(i < n && ident(&s) == Some(i), "nth-wrong", "{}: read_nth_shape({}) returned record {:?}", whole(&c.ops, k), i, ident(&s));
                        model.pos = vec![0];
                        model.exact = true;
                    }
                    Some(Err(e)) => fail!("nth-wrong", "{}: read_nth_shape({}): {}", whole(&c.ops, k), i, err_str(&e)),
                }
            }
            Op::Iter(j) => {
                let it = r.iter_shapes().map(|x| match x {
                    Ok(s) => Ok(ident(&s)),
                    Err(e) => Err(err_str(&e)),
                });
                let (items, ended) = take_items(it, *j, n);
                if let Err(m) = model.iterate(&items, ended) {
                    fail!("iteration-sequence", "{}: {}", whole(&c.ops, k), m);
                }
            }
            Op::IterSkip(s) => {
                let got = r.iter_shapes().nth(*s as usize).map(|x| x.map(|sh| ident(&sh)).map_err(|e| err_str(&e)));
                if let Err(m) = model.skip_nth(*s as usize, &got) {
                    fail!("iteration-sequence", "{}: {}", whole(&c.ops, k), m);
                }
            }
            Op::NthAs(i) => {
                if !with_index {
                    continue;
                }
                let i = *i as usize;
                match r.read_nth_shape_as::<shapefile::Multipoint>(i) {
                    None => ensure!(i >= n, "nth-wrong", "{}: read_nth_shape_as({}) is None with {} records", whole(&c.ops, k), i, n),
                    Some(Ok(_)) => fail!("nth-wrong", "{}: read_nth_shape_as::<Multipoint>({}) yields a value from a file without multipoints", whole(&c.ops, k), i),
                    Some(Err(_)) => {
                        ensure!(i < n, "nth-wrong", "{}: read_nth_shape_as({}) is an error with {} records", whole(&c.ops, k), i, n);
                        // nothing was delivered: what was not consumed before is still not consumed (or the reader restarts)
                        model.exact = false;
                    }
                }
            }
            Op::ReadAll => {}
            Op::IterLast => {
                let got = r.iter_shapes().last().map(|x| x.map(|sh| ident(&sh)).map_err(|e| err_str(&e)));
                if let Err(m) = model.consume_all(Some(&got), None) {
                    fail!("iteration-sequence", "{}: {}", whole(&c.ops, k), m);
                }
            }
            Op::IterCount => {
                let got = r.iter_shapes().count();
                if let Err(m) = model.consume_all(None, Some(got)) {
                    fail!("iteration-sequence", "{}: {}", whole(&c.ops, k), m);
                }
            }
            Op::IterAs => {
                let first = r.iter_shapes_as::<shapefile::Multipoint>().next();
                model.typed_miss(matches!(first, Some(Err(_))), first.is_none(), with_index).map_err(|m| Fail::new("iteration-sequence", format!("{}: {}", whole(&c.ops, k), m)))?;
                if let Some(Ok(_)) = first {
                    fail!("iteration-sequence", "{}: iter_shapes_as::<Multipoint> yields a value from a file without multipoints", whole(&c.ops, k));
                }
            }
        }
    }
    Ok(())
}

/// `Reader::read()`: the remaining pairs as model items, plus a note if some shape came with another shape's row.
fn read_all_items<T: std::io::Read + std::io::Seek, D: std::io::Read + std::io::Seek>(r: &mut Reader<T, D>) -> (Vec<Item>, Option<String>) {
    match r.read() {
        Ok(v) => {
            let mut mis = None;
            let items = v
                .iter()
                .map(|(s, rec)| {
                    let si = ident(s);
                    let ri = match rec.get("idx") {
                        Some(dbase::FieldValue::Numeric(Some(v))) => Some(*v as usize),
                        _ => None,
                    };
                    if si != ri && mis.is_none() {
                        mis = Some(format!("shape {:?} paired with row {:?}", si, ri));
                    }
                    match si {
                        Some(i) => Item::Rec(i),
                        None => Item::Err("unidentifiable shape".into()),
                    }
                })
                .collect();
            (items, mis)
        }
        Err(e) => (vec![Item::Err(err_str(&e))], None),
    }
}

pub struct Histories;

impl Prop for Histories {
    type Case = HistCase;
    fn name() -> &'static str {
        "histories"
    }
    fn rule() -> &'static str {
        "bounded-exhaustive: every sequence of length <= L (quick 5, thorough 6; complete Reader and index-less reader: one more) over \
         {iterate j items (j=0,1,2,all), a new iterator consumed through nth(s) (s=0,1 — what skip / step_by use), a new iterator consumed through last() and through count() (own alphabets, one op shorter; ShapeReader and complete Reader), read_nth(i) i in 0..=n, seek(k) k in 0..=n, shape_count} on ShapeReader::with_shx; {iterate j \
         pairs, seek(k), shape_count} on the complete Reader (rows carry their index); {iterate j, read_nth(i)} on a reader without index; the ShapeReader and Reader histories also through from_path on real files (one op shorter, records of ~3 KB so that the file spans BufReader's 8 KiB buffer); files with \
         n=3 (thorough also 4) records of pairwise different sizes and of equal sizes. Oracle: reference state machine (read_nth(i) -> \
         record i / None; count constant; iteration after open / successful read_nth / seek(k) yields exactly 0.. / 0.. / k.. then ends; \
         a further iteration yields the not-yet-consumed records or all records from the first; rows stay aligned). \
         Non-trivial: an iteration preceded by seek(k>0) or by a partial iteration; distinct by history"
    }
    fn check(c: &HistCase, ctx: &mut Ctx) -> Result<(), Fail> {
        let n = c.n as usize;
        let (shp, shx, dbf) = if c.layout == 2 {
            build_files_kind(n, c.equal_sizes, 0, true)
        } else if c.reader == 3 || c.reader == 4 {
            build_files_sized(n, c.equal_sizes, 185)
        } else {
            build_files(n, c.equal_sizes)
        };
        if c.layout == 2 {
            ctx.class("measured records (PolylineZ, all measures NO_DATA)");
        }
        let (shp, shx) = if c.layout == 1 { relayout(&shp, &shx) } else { (shp, shx) };
        if c.layout == 1 {
            ctx.class("foreign-layout(reversed, gapped)");
        }
        let mut model = Model {
            n,
            pos: vec![0],
            exact: true,
        };
        let mut seen_partial = false;
        let mut seen_seek = false;
        for (k, op) in c.ops.iter().enumerate() {
            if matches!(op, Op::Iter(_) | Op::IterSkip(_) | Op::IterLast | Op::IterCount) {
                if seen_partial || seen_seek {
                    ctx.nontrivial();
                }
            }
            match op {
                Op::Seek(x) if *x > 0 => seen_seek = true,
                Op::Iter(j) if *j != 255 && (*j as usize) < n => seen_partial = true,
                Op::IterSkip(_) | Op::IterAs | Op::NthAs(_) => seen_partial = true,
                Op::ReadAll => {}
                _ => {}
            }
            let _ = k;
        }
        ctx.class(match c.reader {
            0 => "ShapeReader+shx",
            1 => "Reader",
            2 => "ShapeReader-noshx",
            3 => "ShapeReader::from_path",
            4 => "Reader::from_path",
            6 => "Reader without index",
            _ => "pre-used ShapeReader handed to Reader::new",
        });
        let whole = |ops: &[Op], k: usize| format!("history {:?} (failing at op #{})", ops, k);
        match c.reader {
            1 | 6 => {
                let sr = if c.reader == 1 { ShapeReader::with_shx(Cursor::new(shp), Cursor::new(shx)) } else { ShapeReader::new(Cursor::new(shp)) }.map_err(|e| Fail::new("open-error", err_str(&e)))?;
                let dr = dbase::Reader::new(Cursor::new(dbf)).map_err(|e| Fail::new("open-error", format!("{:?}", e)))?;
                let mut r = Reader::new(sr, dr);
                for (k, op) in c.ops.iter().enumerate() {
                    match op {
                        Op::Count => ensure!(r.shape_count().ok() == Some(n), "count-changes", "{}: shape_count = {:?}", whole(&c.ops, k), r.shape_count().ok()),
                        Op::Seek(x) if c.reader == 6 => {
                            // without an index the seek is refused; a refused call must leave shapes and rows where they were
                            match r.seek(*x as usize) {
                                Err(shapefile::Error::MissingIndexFile) => {}
                                other => fail!("seek-error", "{}: seek({}) on a reader without index returned {:?}", whole(&c.ops, k), x, other.map_err(|e| err_str(&e))),
                            }
                        }
                        Op::Seek(x) => {
                            r.seek(*x as usize).map_err(|e| Fail::new("seek-error", format!("{}: {}", whole(&c.ops, k), err_str(&e))))?;
                            model.pos = vec![(*x as usize).min(n)];
                            model.exact = true;
                        }
                        Op::Iter(j) => {
                            let mut misaligned: Option<String> = None;
                            let it = r.iter_shapes_and_records().map(|x| match x {
                                Ok((s, rec)) => {
                                    let si = ident(&s);
                                    let ri = match rec.get("idx") {
                                        Some(dbase::FieldValue::Numeric(Some(v))) => Some(*v as usize),
                                        _ => None,
                                    };
                                    if si != ri {
                                        misaligned = Some(format!("shape {:?} paired with row {:?}", si, ri));
                                    }
                                    Ok(si)
                                }
                                Err(e) => Err(err_str(&e)),
                            });
                            let (items, ended) = take_items(it, *j, n);
                            if let Some(m) = misaligned {
                                fail!("pairs-misaligned", "{}: {}", whole(&c.ops, k), m);
                            }
                            if let Err(m) = model.iterate(&items, ended) {
                                fail!("iteration-sequence", "{}: {}", whole(&c.ops, k), m);
                            }
                        }
                        Op::IterSkip(sk) => {
                            let got = r.iter_shapes_and_records().nth(*sk as usize).map(|x| match x {
                                Ok((sh, rec)) => {
                                    let (si, ri) = (ident(&sh), match rec.get("idx") {
                                        Some(dbase::FieldValue::Numeric(Some(v))) => Some(*v as usize),
                                        _ => None,
                                    });
                                    if si == ri { Ok(si) } else { Err(format!("MISALIGNED shape {:?} paired with row {:?}", si, ri)) }
                                }
                                Err(e) => Err(err_str(&e)),
                            });
                            if let Some(Err(m)) = &got {
                                if m.starts_with("MISALIGNED") {
                                    fail!("pairs-misaligned", "{}: {}", whole(&c.ops, k), m);
                                }
                            }
                            if let Err(m) = model.skip_nth(*sk as usize, &got) {
                                fail!("iteration-sequence", "{}: {}", whole(&c.ops, k), m);
                            }
                        }
                        Op::ReadAll => {
                            let (items, mis) = read_all_items(&mut r);
                            if let Some(m) = mis {
                                fail!("pairs-misaligned", "{}: read(): {}", whole(&c.ops, k), m);
                            }
                            if let Err(m) = model.iterate(&items, true) {
                                fail!("iteration-sequence", "{}: read(): {}", whole(&c.ops, k), m);
                            }
                        }
                        Op::IterLast => {
                            let got = r.iter_shapes_and_records().last().map(|x| match x {
                                Ok((sh, rec)) => {
                                    let (si, ri) = (ident(&sh), match rec.get("idx") {
                                        Some(dbase::FieldValue::Numeric(Some(v))) => Some(*v as usize),
                                        _ => None,
                                    });
                                    if si == ri { Ok(si) } else { Err(format!("MISALIGNED shape {:?} paired with row {:?}", si, ri)) }
                                }
                                Err(e) => Err(err_str(&e)),
                            });
                            if let Some(Err(m)) = &got {
                                if m.starts_with("MISALIGNED") {
                                    fail!("pairs-misaligned", "{}: {}", whole(&c.ops, k), m);
                                }
                            }
                            if let Err(m) = model.consume_all(Some(&got), None) {
                                fail!("iteration-sequence", "{}: {}", whole(&c.ops, k), m);
                            }
                        }
                        Op::IterCount => {
                            let got = r.iter_shapes_and_records().count();
                            if let Err(m) = model.consume_all(None, Some(got)) {
                                fail!("iteration-sequence", "{}: {}", whole(&c.ops, k), m);
                            }
                        }
                        Op::Nth(_) | Op::NthAs(_) | Op::IterAs => {}
                    }
                }
            }
            3 | 4 => {
                // the same histories through files on disk (ShapeReader::from_path / Reader::from_path: BufReader<File>)
                let dir = crate::common::scratch_dir();
                let p = dir.join(format!("c15-big-{}-{}.shp", n, c.equal_sizes as u8));
                if !p.exists() || std::fs::metadata(&p).map(|m| m.len()).unwrap_or(0) != shp.len() as u64 {
                    std::fs::write(&p, &shp).map_err(|e| Fail::new("disk-io", e.to_string()))?;
                    std::fs::write(p.with_extension("shx"), &shx).map_err(|e| Fail::new("disk-io", e.to_string()))?;
                    std::fs::write(p.with_extension("dbf"), &dbf).map_err(|e| Fail::new("disk-io", e.to_string()))?;
                }
                if c.reader == 3 {
                    let r = ShapeReader::from_path(&p).map_err(|e| Fail::new("open-error", err_str(&e)))?;
                    drive_shape_reader(r, true, c, n, &mut model)?;
                } else {
                    let mut r = Reader::from_path(&p).map_err(|e| Fail::new("open-error", err_str(&e)))?;
                    for (k, op) in c.ops.iter().enumerate() {
                        match op {
                            Op::Count => ensure!(r.shape_count().ok() == Some(n), "count-changes", "{}: shape_count = {:?}", whole(&c.ops, k), r.shape_count().ok()),
                            Op::Seek(x) => {
                                r.seek(*x as usize).map_err(|e| Fail::new("seek-error", format!("{}: {}", whole(&c.ops, k), err_str(&e))))?;
                                model.pos = vec![(*x as usize).min(n)];
                                model.exact = true;
                            }
                            Op::Iter(j) => {
                                let mut misaligned: Option<String> = None;
                                let it = r.iter_shapes_and_records().map(|x| match x {
                                    Ok((s, rec)) => {
                                        let si = ident(&s);
                                        let ri = match rec.get("idx") {
                                            Some(dbase::FieldValue::Numeric(Some(v))) => Some(*v as usize),
                                            _ => None,
                                        };
                                        if si != ri {
                                            misaligned = Some(format!("shape {:?} paired with row {:?}", si, ri));
                                        }
                                        Ok(si)
                                    }
                                    Err(e) => Err(err_str(&e)),
                                });
                                let (items, ended) = take_items(it, *j, n);
                                if let Some(m) = misaligned {
                                    fail!("pairs-misaligned", "{}: {}", whole(&c.ops, k), m);
                                }
                                if let Err(m) = model.iterate(&items, ended) {
                                    fail!("iteration-sequence", "{}: {}", whole(&c.ops, k), m);
                                }
                            }
                            Op::IterSkip(sk) => {
                                let got = r.iter_shapes_and_records().nth(*sk as usize).map(|x| match x {
                                    Ok((sh, rec)) => {
                                        let (si, ri) = (ident(&sh), match rec.get("idx") {
                                            Some(dbase::FieldValue::Numeric(Some(v))) => Some(*v as usize),
                                            _ => None,
                                        });
                                        if si == ri { Ok(si) } else { Err(format!("MISALIGNED shape {:?} paired with row {:?}", si, ri)) }
                                    }
                                    Err(e) => Err(err_str(&e)),
                                });
                                if let Some(Err(m)) = &got {
                                    if m.starts_with("MISALIGNED") {
                                        fail!("pairs-misaligned", "{}: {}", whole(&c.ops, k), m);
                                    }
                                }
                                if let Err(m) = model.skip_nth(*sk as usize, &got) {
                                    fail!("iteration-sequence", "{}: {}", whole(&c.ops, k), m);
                                }
                            }
                            Op::ReadAll => {
                            let (items, mis) = read_all_items(&mut r);
                            if let Some(m) = mis {
                                fail!("pairs-misaligned", "{}: read(): {}", whole(&c.ops, k), m);
                            }
                            if let Err(m) = model.iterate(&items, true) {
                                fail!("iteration-sequence", "{}: read(): {}", whole(&c.ops, k), m);
                            }
                        }
                        Op::IterLast => {
                            let got = r.iter_shapes_and_records().last().map(|x| match x {
                                Ok((sh, rec)) => {
                                    let (si, ri) = (ident(&sh), match rec.get("idx") {
                                        Some(dbase::FieldValue::Numeric(Some(v))) => Some(*v as usize),
                                        _ => None,
                                    });
                                    if si == ri { Ok(si) } else { Err(format!("MISALIGNED shape {:?} paired with row {:?}", si, ri)) }
                                }
                                Err(e) => Err(err_str(&e)),
                            });
                            if let Some(Err(m)) = &got {
                                if m.starts_with("MISALIGNED") {
                                    fail!("pairs-misaligned", "{}: {}", whole(&c.ops, k), m);
                                }
                            }
                            if let Err(m) = model.consume_all(Some(&got), None) {
                                fail!("iteration-sequence", "{}: {}", whole(&c.ops, k), m);
                            }
                        }
                        Op::IterCount => {
                            let got = r.iter_shapes_and_records().count();
                            if let Err(m) = model.consume_all(None, Some(got)) {
                                fail!("iteration-sequence", "{}: {}", whole(&c.ops, k), m);
                            }
                        }
                        Op::Nth(_) | Op::NthAs(_) | Op::IterAs => {}
                        }
                    }
                }
            }
            5 => {
                let split = (c.ops.len() + 1) / 2;
                let mut sr = ShapeReader::with_shx(Cursor::new(shp), Cursor::new(shx)).map_err(|e| Fail::new("open-error", err_str(&e)))?;
                let first = HistCase { ops: c.ops[..split].to_vec(), ..c.clone() };
                drive_shape_reader_ref(&mut sr, true, &first, n, &mut model).map_err(|f| Fail::new(&f.key, format!("(before Reader::new) {}", f.msg)))?;
                let dr = dbase::Reader::new(Cursor::new(dbf)).map_err(|e| Fail::new("open-error", format!("{:?}", e)))?;
                let mut r = Reader::new(sr, dr);
                // the attribute rows start at row 0 whatever the shape reader did before: only the shapes are compared
                for (k, op) in c.ops.iter().enumerate().skip(split) {
                    match op {
                        Op::Count => ensure!(r.shape_count().ok() == Some(n), "count-changes", "{}: shape_count = {:?}", whole(&c.ops, k), r.shape_count().ok()),
                        Op::Seek(x) => {
                            r.seek(*x as usize).map_err(|e| Fail::new("seek-error", format!("{}: {}", whole(&c.ops, k), err_str(&e))))?;
                            model.pos = vec![(*x as usize).min(n)];
                            model.exact = true;
                        }
                        Op::Iter(j) => {
                            let it = r.iter_shapes_and_records().map(|x| match x {
                                Ok((s, _)) => Ok(ident(&s)),
                                Err(e) => Err(err_str(&e)),
                            });
                            let (items, ended) = take_items(it, *j, n);
                            if let Err(m) = model.iterate(&items, ended) {
                                fail!("iteration-sequence", "{} (ops from #{} on run on Reader::new(the used ShapeReader, ..)): {}", whole(&c.ops, k), split, m);
                            }
                        }
                        Op::IterSkip(sk) => {
                            let got = r.iter_shapes_and_records().nth(*sk as usize).map(|x| x.map(|(sh, _)| ident(&sh)).map_err(|e| err_str(&e)));
                            if let Err(m) = model.skip_nth(*sk as usize, &got) {
                                fail!("iteration-sequence", "{} (ops from #{} on run on Reader::new(the used ShapeReader, ..)): {}", whole(&c.ops, k), split, m);
                            }
                        }
                        Op::ReadAll => {
                            let (items, mis) = read_all_items(&mut r);
                            if let Some(m) = mis {
                                fail!("pairs-misaligned", "{}: read(): {}", whole(&c.ops, k), m);
                            }
                            if let Err(m) = model.iterate(&items, true) {
                                fail!("iteration-sequence", "{}: read(): {}", whole(&c.ops, k), m);
                            }
                        }
                        Op::IterLast => {
                            let got = r.iter_shapes_and_records().last().map(|x| match x {
                                Ok((sh, rec)) => {
                                    let (si, ri) = (ident(&sh), match rec.get("idx") {
                                        Some(dbase::FieldValue::Numeric(Some(v))) => Some(*v as usize),
                                        _ => None,
                                    });
                                    if si == ri { Ok(si) } else { Err(format!("MISALIGNED shape {:?} paired with row {:?}", si, ri)) }
                                }
                                Err(e) => Err(err_str(&e)),
                            });
                            if let Some(Err(m)) = &got {
                                if m.starts_with("MISALIGNED") {
                                    fail!("pairs-misaligned", "{}: {}", whole(&c.ops, k), m);
                                }
                            }
                            if let Err(m) = model.consume_all(Some(&got), None) {
                                fail!("iteration-sequence", "{}: {}", whole(&c.ops, k), m);
                            }
                        }
                        Op::IterCount => {
                            let got = r.iter_shapes_and_records().count();
                            if let Err(m) = model.consume_all(None, Some(got)) {
                                fail!("iteration-sequence", "{}: {}", whole(&c.ops, k), m);
                            }
                        }
                        Op::Nth(_) | Op::NthAs(_) | Op::IterAs => {}
                    }
                }
            }
            rk => {
                let r = if rk == 0 {
                    ShapeReader::with_shx(Cursor::new(shp), Cursor::new(shx))
                } else {
                    ShapeReader::new(Cursor::new(shp))
                }
                .map_err(|e| Fail::new("open-error", err_str(&e)))?;
                drive_shape_reader(r, rk == 0, c, n, &mut model)?;
            }
        }
        Ok(())
    }
}

struct Block {
    n: u8,
    equal: bool,
    layout: u8,
    reader: u8,
    alphabet: Vec<Op>,
    len: usize,
}

/// Lazy enumeration: block by block (shortest histories first), the i-th history of a block is the
/// base-|alphabet| expansion of i.
struct HistIter {
    blocks: Vec<Block>,
    b: usize,
    i: u64,
}

impl Iterator for HistIter {
    type Item = HistCase;
    fn next(&mut self) -> Option<HistCase> {
        loop {
            let blk = self.blocks.get(self.b)?;
            let a = blk.alphabet.len() as u64;
            let total = a.pow(blk.len as u32);
            if self.i >= total {
                self.b += 1;
                self.i = 0;
                continue;
            }
            let mut x = self.i;
            self.i += 1;
            let mut ops = Vec::with_capacity(blk.len);
            for _ in 0..blk.len {
                ops.push(blk.alphabet[(x % a) as usize]);
                x /= a;
            }
            return Some(HistCase {
                n: blk.n,
                equal_sizes: blk.equal,
                reader: blk.reader,
                ops,
                layout: blk.layout,
            });
        }
    }
}

impl EnumProp for Histories {
    fn enumerate(env: &Env) -> Box<dyn Iterator<Item = HistCase>> {
        let ns: Vec<u8> = if env.thorough() { vec![3, 4] } else { vec![3] };
        let len = env.pickn(5, 6);
        let mut blocks = Vec::new();
        for n in ns {
            let mut a0 = vec![Op::Iter(0), Op::Iter(1), Op::Iter(2), Op::Iter(255), Op::Count, Op::IterSkip(0), Op::IterSkip(1)];
            for i in 0..=n {
                a0.push(Op::Nth(i));
                a0.push(Op::Seek(i));
            }
            let mut a1 = vec![Op::Iter(0), Op::Iter(1), Op::Iter(2), Op::Iter(255), Op::Count, Op::IterSkip(1), Op::ReadAll];
            for i in 0..=n {
                a1.push(Op::Seek(i));
            }
            let a2 = vec![Op::Iter(0), Op::Iter(1), Op::Iter(2), Op::Iter(255), Op::IterSkip(1)];
            // the alphabet with the failing typed accesses (one op shorter)
            let mut a0t = a0.clone();
            a0t.push(Op::IterAs);
            for i in 0..n {
                a0t.push(Op::NthAs(i));
            }
            let a2t = vec![Op::Iter(0), Op::Iter(1), Op::Iter(255), Op::IterSkip(1), Op::IterAs];
            for equal in [false, true] {
                for l in 1..=len {
                    blocks.push(Block { n, equal, layout: 0, reader: 0, alphabet: a0.clone(), len: l });
                }
                for l in 1..=len + 1 {
                    blocks.push(Block { n, equal, layout: 0, reader: 1, alphabet: a1.clone(), len: l });
                }
                for l in 1..=len + 2 {
                    blocks.push(Block { n, equal, layout: 0, reader: 2, alphabet: a2.clone(), len: l });
                }
                // files on disk: one length shorter (each history opens real files)
                for l in 1..=len - 1 {
                    blocks.push(Block { n, equal, layout: 0, reader: 3, alphabet: a0.clone(), len: l });
                }
                for l in 1..=len {
                    blocks.push(Block { n, equal, layout: 0, reader: 4, alphabet: a1.clone(), len: l });
                }
                // iterators consumed through last() / count() (methods an iterator may override): in memory with and
                // without index, and by path
                let mut a0l = vec![Op::Iter(1), Op::Iter(255), Op::IterLast, Op::IterCount, Op::IterSkip(0), Op::Nth(0)];
                for i in 0..=n {
                    a0l.push(Op::Seek(i));
                }
                let a2l = vec![Op::Iter(1), Op::Iter(255), Op::IterLast, Op::IterCount, Op::IterSkip(1)];
                for l in 1..=len - 1 {
                    blocks.push(Block { n, equal, layout: 0, reader: 0, alphabet: a0l.clone(), len: l });
                    blocks.push(Block { n, equal, layout: 1, reader: 0, alphabet: a0l.clone(), len: l });
                    blocks.push(Block { n, equal, layout: 0, reader: 2, alphabet: a2l.clone(), len: l + 1 });
                }
                for l in 1..=len - 2 {
                    blocks.push(Block { n, equal, layout: 0, reader: 3, alphabet: a0l.clone(), len: l });
                }
                // the same on the complete Reader (pairs), in memory and by path
                let mut a1l = vec![Op::Iter(1), Op::Iter(255), Op::IterLast, Op::IterCount, Op::IterSkip(1), Op::ReadAll];
                for i in 0..=n {
                    a1l.push(Op::Seek(i));
                }
                for l in 1..=len - 1 {
                    blocks.push(Block { n, equal, layout: 0, reader: 1, alphabet: a1l.clone(), len: l });
                }
                for l in 1..=len - 2 {
                    blocks.push(Block { n, equal, layout: 0, reader: 4, alphabet: a1l.clone(), len: l });
                }
                // random access (refused today) in the histories of a reader without index
                let mut a2n = a2.clone();
                a2n.extend([Op::Nth(0), Op::Nth(1), Op::Nth(n)]);
                for l in 1..=len {
                    blocks.push(Block { n, equal, layout: 0, reader: 2, alphabet: a2n.clone(), len: l });
                }
                // failing typed accesses in the history
                for l in 1..=len - 1 {
                    blocks.push(Block { n, equal, layout: 0, reader: 0, alphabet: a0t.clone(), len: l });
                    blocks.push(Block { n, equal, layout: 1, reader: 0, alphabet: a0t.clone(), len: l });
                    blocks.push(Block { n, equal, layout: 0, reader: 2, alphabet: a2t.clone(), len: l + 1 });
                }
                for l in 1..=len - 2 {
                    blocks.push(Block { n, equal, layout: 0, reader: 3, alphabet: a0t.clone(), len: l });
                }
                // records stored in reverse order with gaps, located through the index
                for l in 1..=len - 1 {
                    blocks.push(Block { n, equal, layout: 1, reader: 1, alphabet: a1.clone(), len: l });
                }
                // records of a measured multi-part type
                for l in 1..=len - 1 {
                    blocks.push(Block { n, equal, layout: 2, reader: 0, alphabet: a0.clone(), len: l });
                    blocks.push(Block { n, equal, layout: 2, reader: 1, alphabet: a1.clone(), len: l });
                    blocks.push(Block { n, equal, layout: 2, reader: 2, alphabet: a2.clone(), len: l + 1 });
                }
                // the complete Reader without an index: iterations, and seeks (which are refused)
                let mut a6 = a2.clone();
                a6.push(Op::ReadAll);
                a6.push(Op::Seek(1));
                a6.push(Op::Seek(n));
                for l in 1..=len + 1 {
                    blocks.push(Block { n, equal, layout: 0, reader: 6, alphabet: a6.clone(), len: l });
                }
                // a ShapeReader used first, then handed to Reader::new
                for l in 2..=len - 1 {
                    blocks.push(Block { n, equal, layout: 0, reader: 5, alphabet: a0t.clone(), len: l });
                    blocks.push(Block { n, equal, layout: 1, reader: 5, alphabet: a0.clone(), len: l });
                }
            }
        }
        // shortest histories first so that the first failure is minimal
        blocks.sort_by_key(|b| b.len);
        Box::new(HistIter { blocks, b: 0, i: 0 })
    }
}

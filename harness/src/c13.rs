//! C13 — truncated or failing sources give errors and only genuine shapes (fault enumeration).

use crate::c03::{cmp_read, file_model};
use proptest::prelude::*;
use serde::{Deserialize, Serialize};
use shapefile::{Error, ShapeReader};
use std::io::Cursor;
use vlib::io::{is_marked, Src};
use vlib::kinds::*;
use vlib::libops::*;
use vlib::model::*;
use vlib::refcodec::{self, FileModel};
use vlib::run::*;
use vlib::{ensure, fail};

#[derive(Serialize, Deserialize, Debug, Clone, Hash)]
pub struct SrcCase {
    pub model: FileModel,
    pub chunks: Vec<usize>,
    /// index into vlib::io::FAULT_KINDS: the io::ErrorKind the injected failures carry
    #[serde(default)]
    pub kind: u8,
}

pub struct Sources;

impl Prop for Sources {
    type Case = SrcCase;
    fn name() -> &'static str {
        "sources"
    }
    fn rule() -> &'static str {
        "proptest generates valid files (reference encoder: all 14 header codes, 1-6 records incl. foreign layouts and the layouts the \
         library writes). (a) EVERY truncation length 0..=L of the .shp read without index: t<100 => open fails; otherwise every record \
         wholly inside the retained bytes is returned equal to the model, then the cut record is an Err(IoError), t=L ends cleanly; EVERY \
         truncation of the .shx with the full .shp: with_shx fails exactly when t < 100+8n, never panics. (b) a source failing its k-th \
         read/seek for EVERY k a full traversal (open, iterate, seek(k)+read for every k incl. past the end, every read_nth) issues, on .shp and on .shx: the API call in progress \
         returns the marked error (the injected error carries one of ten io::ErrorKind values; Interrupted is excluded because read_exact retries it by contract). (c) sources returning at most c bytes per read (c = 1,2,3,7, one generated sequence) give identical \
         shapes. Inner evaluations = truncations + injected runs. Non-trivial: a multi-part record (cuts fall strictly inside record bodies)"
    }
    fn check(c: &SrcCase, ctx: &mut Ctx) -> Result<(), Fail> {
        check_sources(c, ctx)
    }
}

/// Files whose records are separated by small filler runs (so they can only be read through the index):
/// the fault and short-read clauses of C13 on the indexed route.
pub struct SourcesGapped;
impl Prop for SourcesGapped {
    type Case = SrcCase;
    fn name() -> &'static str {
        "sources-gapped"
    }
    fn rule() -> &'static str {
        "proptest: valid files with 2-16 byte filler runs between records, read WITH the index: clean traversal, the k-th read/seek of \
         .shp and of .shx failing for every k, and short-read schedules {1,2,3,7, generated}; same oracle as sources. \
         Non-trivial: every case (every record is reached by skipping a gap)"
    }
    fn check(c: &SrcCase, ctx: &mut Ctx) -> Result<(), Fail> {
        ctx.nontrivial();
        let m = &c.model;
        let enc = refcodec::encode(m);
        let never = || false;
        let mut inner = 0u64;
        let clean_shp = Src::new(enc.shp.clone());
        let clean_shx = Src::new(enc.shx.clone());
        traverse("clean traversal (gapped file)", clean_shp.handle(), Some(clean_shx.handle()), m, &never)?;
        for k in 0..clean_shp.ops() {
            inner += 1;
            let s = Src::faulting_kind(enc.shp.clone(), k, c.kind);
            let h = s.handle();
            let what = format!("gapped .shp source failing its op #{}", k);
            match guard(|| traverse(&what, s, Some(Src::new(enc.shx.clone())), m, &|| h.faulted())) {
                Ok(r) => r?,
                Err(p) => fail!("panic", "{}: reader panics: {}", what, p),
            }
        }
        let mut schedules: Vec<Vec<usize>> = vec![vec![1], vec![2], vec![3], vec![7]];
        schedules.push(c.chunks.clone());
        for sch in schedules {
            inner += 1;
            let what = format!("gapped file, sources returning at most {:?} bytes per read", sch);
            match guard(|| traverse(&what, Src::short(enc.shp.clone(), sch.clone()), Some(Src::short(enc.shx.clone(), sch.clone())), m, &never)) {
                Ok(r) => r?,
                Err(p) => fail!("panic", "{}: reader panics: {}", what, p),
            }
        }
        ctx.evals(inner);
        Ok(())
    }
}
impl RandomProp for SourcesGapped {
    fn max_shrink_iters() -> u32 {
        150
    }
    fn strategy(_env: &Env) -> BoxedStrategy<SrcCase> {
        (file_model(6, 3, 5), proptest::collection::vec(1usize..12, 1..6), proptest::collection::vec((1usize..=8, any::<u8>()), 8), 0u8..vlib::io::FAULT_KINDS.len() as u8)
            .prop_map(|(mut model, chunks, fl, kind)| {
                if model.recs.is_empty() {
                    // an empty file has nothing to cut: give it one fixed record instead of rejecting the draw
                    let ty = if model.ty == Ty::Null { Ty::Point } else { model.ty };
                    let pts = vec![v4(1.0, 2.0, 3.0, 4.0), v4(2.0, 1.0, 0.0, 5.0), v4(1.0, 2.0, 3.0, 4.0)];
                    let parts = if ty.family() == Family::Point { vec![Part { kind: 0, pts: pts[..1].to_vec() }] } else { vec![Part { kind: if ty == Ty::Multipatch { 2 } else { 0 }, pts }] };
                    let g = Geom { ty, parts, bbox: [F(0); 8], m_present: ty.carries_m() }.canon_file();
                    let keep = model.ty;
                    model = FileModel::simple(ty, vec![g]);
                    if keep != Ty::Null {
                        model.ty = keep;
                    }
                }
                model.trailing.clear();
                let n = model.recs.len();
                model.order = (0..n).collect();
                model.fillers = (0..=n).map(|k| vec![fl[k % fl.len()].1; fl[k % fl.len()].0 * 2]).collect();
                SrcCase { model, chunks, kind }
            })
            .boxed()
    }
    fn cases(env: &Env) -> u64 {
        env.n(13 * 30, 13 * 1500)
    }
}

impl RandomProp for Sources {
    fn max_shrink_iters() -> u32 {
        150
    }
    fn strategy(_env: &Env) -> BoxedStrategy<SrcCase> {
        let model = prop_oneof![
            11 => file_model(6, 4, 6),
            // one file in twelve holds a record with 130-200 points in a part, or 257-300 parts
            1 => (vlib::gen::ty14(), any::<bool>()).prop_flat_map(|(ty, many_parts)| {
                let g = if many_parts { vlib::gen::fgeom_sized(ty, 257..=300, 0..=2) } else { vlib::gen::fgeom_sized(ty, 1..=2, 130..=200) };
                proptest::collection::vec(g, 1..=2).prop_map(move |geoms| FileModel::simple(ty, geoms))
            }),
        ];
        (model, proptest::collection::vec(1usize..12, 1..6), 0u8..vlib::io::FAULT_KINDS.len() as u8)
            .prop_map(|(mut model, chunks, kind)| {
                if model.recs.is_empty() {
                    // an empty file has nothing to cut: give it one fixed record instead of rejecting the draw
                    let ty = if model.ty == Ty::Null { Ty::Point } else { model.ty };
                    let pts = vec![v4(1.0, 2.0, 3.0, 4.0), v4(2.0, 1.0, 0.0, 5.0), v4(1.0, 2.0, 3.0, 4.0)];
                    let parts = if ty.family() == Family::Point { vec![Part { kind: 0, pts: pts[..1].to_vec() }] } else { vec![Part { kind: if ty == Ty::Multipatch { 2 } else { 0 }, pts }] };
                    let g = Geom { ty, parts, bbox: [F(0); 8], m_present: ty.carries_m() }.canon_file();
                    let keep = model.ty;
                    model = FileModel::simple(ty, vec![g]);
                    if keep != Ty::Null {
                        model.ty = keep;
                    }
                }
                model.trailing.clear();
                SrcCase { model, chunks, kind }
            })
            .boxed()
    }
    fn cases(env: &Env) -> u64 {
        env.n(13 * 80, 13 * 3000)
    }
}

/// End (exclusive) of record i in the .shp.
fn ends_of(spans: &[(usize, usize)], i: usize) -> usize {
    spans[i].0 + 8 + spans[i].1
}

fn is_io(e: &Error) -> bool {
    matches!(e, Error::IoError(_))
}

/// Full traversal over a (possibly faulting) source. Returns Err on an oracle failure.
/// `probe` is consulted around every API call: it tells whether the injected fault has fired.
fn traverse(
    what: &str,
    shp: Src,
    shx: Option<Src>,
    model: &FileModel,
    fired: &dyn Fn() -> bool,
) -> Result<(), Fail> {
    let n = model.recs.len();
    let with_index = shx.is_some();
    let was = fired();
    let r = open_src(shp, shx);
    let mut r = match r {
        Ok(r) => {
            ensure!(fired() == was, "fault-swallowed", "{}: the source failed while opening but open returned Ok", what);
            r
        }
        Err(e) => {
            ensure!(fired() && !was, "spurious-error", "{}: open fails without an injected fault: {}", what, err_str(&e));
            ensure!(matches!(&e, Error::IoError(io) if is_marked(io)), "wrong-error", "{}: open surfaced the injected failure as {:?}", what, e);
            return Ok(());
        }
    };
    {
        let mut it = r.iter_shapes();
        for i in 0..n + 1 {
            let was = fired();
            match it.next() {
                None => {
                    ensure!(fired() == was, "fault-swallowed", "{}: the source failed during next() #{} but it returned None", what, i);
                    ensure!(i == n, "count", "{}: iteration ends after {} of {} records", what, i, n);
                    break;
                }
                Some(Ok(s)) => {
                    ensure!(fired() == was, "fault-swallowed", "{}: the source failed during next() #{} but it returned a shape", what, i);
                    ensure!(i < n, "invented-shape", "{}: item {} yielded, {} records exist", what, i, n);
                    if let Err(m) = cmp_read(&model.recs[i].geom, &view_shape(&s)) {
                        fail!("wrong-shape", "{}: item {}: {}", what, i, m);
                    }
                }
                Some(Err(e)) => {
                    ensure!(fired() && !was, "spurious-error", "{}: next() #{} fails without an injected fault: {}", what, i, err_str(&e));
                    ensure!(matches!(&e, Error::IoError(io) if is_marked(io)), "wrong-error", "{}: next() #{} surfaced the injected failure as {:?}", what, i, e);
                    return Ok(());
                }
            }
        }
    }
    if with_index {
        // seek(k) for every k incl. one past the end, each followed by one read
        for kk in (0..=n).rev() {
            let was = fired();
            match r.seek(kk) {
                Ok(()) => ensure!(fired() == was, "fault-swallowed", "{}: the source failed during seek({}) but it returned Ok", what, kk),
                Err(e) => {
                    ensure!(fired() && !was, "spurious-error", "{}: seek({}) fails without an injected fault: {}", what, kk, err_str(&e));
                    ensure!(matches!(&e, Error::IoError(io) if is_marked(io)), "wrong-error", "{}: seek({}) surfaced the injected failure as {:?}", what, kk, e);
                    return Ok(());
                }
            }
            let was = fired();
            let item = r.iter_shapes().next();
            match item {
                None => {
                    ensure!(fired() == was, "fault-swallowed", "{}: the source failed during next() after seek({}) but it returned None", what, kk);
                    ensure!(kk == n, "count", "{}: nothing to read after seek({}) of {}", what, kk, n);
                }
                Some(Ok(s)) => {
                    ensure!(fired() == was, "fault-swallowed", "{}: the source failed during next() after seek({}) but it returned a shape", what, kk);
                    ensure!(kk < n, "invented-shape", "{}: a shape after seek({}) of {}", what, kk, n);
                    if let Err(m) = cmp_read(&model.recs[kk].geom, &view_shape(&s)) {
                        fail!("wrong-shape", "{}: first shape after seek({}): {}", what, kk, m);
                    }
                }
                Some(Err(e)) => {
                    ensure!(fired() && !was, "spurious-error", "{}: next() after seek({}) fails without an injected fault: {}", what, kk, err_str(&e));
                    ensure!(matches!(&e, Error::IoError(io) if is_marked(io)), "wrong-error", "{}: next() after seek({}) surfaced the injected failure as {:?}", what, kk, e);
                    return Ok(());
                }
            }
        }
        for i in (0..n).rev() {
            let was = fired();
            match r.read_nth_shape(i) {
                Some(Ok(s)) => {
                    ensure!(fired() == was, "fault-swallowed", "{}: the source failed during read_nth_shape({}) but it returned a shape", what, i);
                    if let Err(m) = cmp_read(&model.recs[i].geom, &view_shape(&s)) {
                        fail!("wrong-shape", "{}: read_nth_shape({}): {}", what, i, m);
                    }
                }
                Some(Err(e)) => {
                    ensure!(fired() && !was, "spurious-error", "{}: read_nth_shape({}) fails without an injected fault: {}", what, i, err_str(&e));
                    ensure!(matches!(&e, Error::IoError(io) if is_marked(io)), "wrong-error", "{}: read_nth_shape({}) surfaced the injected failure as {:?}", what, i, e);
                    return Ok(());
                }
                None => fail!("count", "{}: read_nth_shape({}) is None, {} records exist", what, i, n),
            }
        }
    }
    Ok(())
}

fn check_sources(c: &SrcCase, ctx: &mut Ctx) -> Result<(), Fail> {
    let m = &c.model;
    let enc = refcodec::encode(m);
    let n = m.recs.len();
    let len = enc.shp.len();
    if m.recs.iter().any(|r| r.geom.parts.len() >= 2) {
        ctx.nontrivial();
    }
    let ends: Vec<usize> = enc.rec_spans.iter().map(|(o, l)| o + 8 + l).collect();
    let mut inner = 0u64;

    // (a) every truncation of the .shp, no index
    for t in 0..=len {
        inner += 1;
        let img = &enc.shp[..t];
        let what = format!(".shp truncated to {} of {} bytes", t, len);
        let res = guard(|| -> Result<(), Fail> {
            let r = ShapeReader::new(Cursor::new(img));
            if t < 100 {
                ensure!(r.is_err(), "short-header-accepted", "{}: reader opens", what);
                return Ok(());
            }
            let mut r = r.map_err(|e| Fail::new("spurious-error", format!("{}: open fails: {}", what, err_str(&e))))?;
            let complete = ends.iter().filter(|e| **e <= t).count();
            let mut it = r.iter_shapes();
            for i in 0..complete {
                match it.next() {
                    Some(Ok(s)) => {
                        if let Err(msg) = cmp_read(&m.recs[i].geom, &view_shape(&s)) {
                            fail!("wrong-shape", "{}: record {} (wholly retained): {}", what, i, msg);
                        }
                    }
                    Some(Err(e)) => fail!("complete-record-lost", "{}: record {} is wholly retained but reading fails: {}", what, i, err_str(&e)),
                    None => fail!("complete-record-lost", "{}: record {} is wholly retained but iteration ended", what, i),
                }
            }
            match it.next() {
                None => ensure!(complete == n, "cut-not-reported", "{}: iteration ends cleanly after {} of {} records", what, complete, n),
                Some(Err(e)) => {
                    ensure!(complete < n, "spurious-error", "{}: all records retained but an error follows: {}", what, err_str(&e));
                    ensure!(is_io(&e), "cut-not-io-error", "{}: the cut record {} is reported as {:?}, not an I/O error", what, complete, e);
                }
                Some(Ok(s)) => fail!(
                    "invented-shape",
                    "{}: record {} is cut but a shape ({}) is returned",
                    what,
                    complete,
                    view_shape(&s).short()
                ),
            }
            Ok(())
        });
        match res {
            Ok(r) => r?,
            Err(p) => fail!("panic", "{}: reader panics: {}", what, p),
        }
    }
    // the complete reader's collecting read() over every truncation: all pairs when nothing is cut, an I/O error otherwise
    {
        let dbf = dbf_with_rows(n);
        for t in 100..=len {
            inner += 1;
            let img = &enc.shp[..t];
            let what = format!(".shp truncated to {} of {} bytes, Reader::new(..).read()", t, len);
            let res = guard(|| -> Result<(), Fail> {
                let sr = match ShapeReader::new(Cursor::new(img)) {
                    Ok(r) => r,
                    Err(e) => fail!("spurious-error", "{}: open fails: {}", what, err_str(&e)),
                };
                let dr = shapefile::dbase::Reader::new(Cursor::new(dbf.clone())).map_err(|e| Fail::new("harness/dbf", format!("{:?}", e)))?;
                let mut rd = shapefile::Reader::new(sr, dr);
                let complete = ends.iter().filter(|e| **e <= t).count();
                match rd.read() {
                    Ok(v) => {
                        ensure!(complete == n, "cut-not-reported", "{}: returns Ok with {} pairs although record {} is cut", what, v.len(), complete);
                        ensure!(v.len() == n, "complete-record-lost", "{}: {} of {} pairs", what, v.len(), n);
                    }
                    Err(e) => {
                        ensure!(complete < n, "spurious-error", "{}: all records retained but read() fails: {}", what, err_str(&e));
                        ensure!(is_io(&e), "cut-not-io-error", "{}: the cut record {} is reported as {:?}, not an I/O error", what, complete, e);
                    }
                }
                Ok(())
            });
            match res {
                Ok(r) => r?,
                Err(p) => fail!("panic", "{}: reader panics: {}", what, p),
            }
        }
    }
    // a sample of the same truncations on disk, read by path: next to the complete .shx (index-driven) and alone
    {
        let mut ts: Vec<usize> = vec![100, len.saturating_sub(1), len];
        for (o, l) in &enc.rec_spans {
            ts.extend([*o, o + 3, o + 8, o + 9, o + 8 + l / 2, (o + 8 + l).saturating_sub(1)]);
        }
        ts.retain(|t| *t >= 100 && *t <= len);
        ts.sort();
        ts.dedup();
        if ts.len() > 28 {
            let step = ts.len() as f64 / 28.0;
            ts = (0..28).map(|i| ts[(i as f64 * step) as usize]).collect();
        }
        // only files whose records are stored in index order without gaps can be compared record by record
        let contiguous = enc.rec_spans.iter().scan(100usize, |p, (o, l)| { let ok = *o == *p; *p = o + 8 + l; Some(ok) }).all(|x| x);
        let p = crate::common::scratch_dir().join("c13-cut.shp");
        let px = p.with_extension("shx");
        for with_index in [true, false] {
            if !with_index && !contiguous {
                continue;
            }
            for &t in &ts {
                inner += 1;
                std::fs::write(&p, &enc.shp[..t]).map_err(|e| Fail::new("disk-io", e.to_string()))?;
                if with_index {
                    std::fs::write(&px, &enc.shx).map_err(|e| Fail::new("disk-io", e.to_string()))?;
                } else {
                    let _ = std::fs::remove_file(&px);
                }
                let what = format!(".shp on disk truncated to {} of {} bytes, opened by path {}", t, len, if with_index { "next to its complete .shx" } else { "without .shx" });
                let res = guard(|| -> Result<(), Fail> {
                    let mut r = ShapeReader::from_path(&p).map_err(|e| Fail::new("spurious-error", format!("{}: open fails: {}", what, err_str(&e))))?;
                    let mut it = r.iter_shapes();
                    for i in 0..n {
                        let whole = ends_of(&enc.rec_spans, i) <= t;
                        match it.next() {
                            Some(Ok(s)) => {
                                ensure!(whole, "invented-shape", "{}: record {} is cut but a shape ({}) is returned", what, i, view_shape(&s).short());
                                if let Err(msg) = cmp_read(&m.recs[i].geom, &view_shape(&s)) {
                                    fail!("wrong-shape", "{}: record {} (wholly retained): {}", what, i, msg);
                                }
                            }
                            Some(Err(e)) => {
                                ensure!(!whole, "complete-record-lost", "{}: record {} is wholly retained but reading fails: {}", what, i, err_str(&e));
                                ensure!(is_io(&e), "cut-not-io-error", "{}: the cut record {} is reported as {:?}, not an I/O error", what, i, e);
                                return Ok(());
                            }
                            None => {
                                ensure!(!whole, "complete-record-lost", "{}: record {} is wholly retained but iteration ended", what, i);
                                fail!("cut-not-reported", "{}: iteration ends cleanly after {} of {} records", what, i, n);
                            }
                        }
                    }
                    Ok(())
                });
                match res {
                    Ok(r) => r?,
                    Err(pn) => fail!("panic", "{}: reader panics: {}", what, pn),
                }
            }
        }
    }
    // every truncation of the .shx with the full .shp
    for t in 0..=enc.shx.len() {
        inner += 1;
        let what = format!(".shx truncated to {} of {} bytes", t, enc.shx.len());
        let res = guard(|| ShapeReader::with_shx(Cursor::new(&enc.shp[..]), Cursor::new(&enc.shx[..t])).map(|r| r.shape_count().ok()));
        match res {
            Err(p) => fail!("panic", "{}: with_shx panics: {}", what, p),
            Ok(Ok(cnt)) => ensure!(t >= 100 + 8 * n, "short-index-accepted", "{}: with_shx opens (count {:?})", what, cnt),
            Ok(Err(e)) => ensure!(t < 100 + 8 * n, "spurious-error", "{}: with_shx fails: {}", what, err_str(&e)),
        }
    }

    // (b) the k-th read/seek fails
    let never = || false;
    let clean_shp = Src::new(enc.shp.clone());
    let clean_shx = Src::new(enc.shx.clone());
    traverse("clean traversal", clean_shp.handle(), Some(clean_shx.handle()), m, &never)?;
    let (n_shp_ops, n_shx_ops) = (clean_shp.ops(), clean_shx.ops());
    for k in 0..n_shp_ops {
        inner += 1;
        let s = Src::faulting_kind(enc.shp.clone(), k, c.kind);
        let h = s.handle();
        let what = format!(".shp source failing its op #{} of {}", k, n_shp_ops);
        let res = guard(|| traverse(&what, s, Some(Src::new(enc.shx.clone())), m, &|| h.faulted()));
        match res {
            Ok(r) => r?,
            Err(p) => fail!("panic", "{}: reader panics: {}", what, p),
        }
    }
    for k in 0..n_shx_ops {
        inner += 1;
        let x = Src::faulting_kind(enc.shx.clone(), k, c.kind);
        let h = x.handle();
        let what = format!(".shx source failing its op #{} of {}", k, n_shx_ops);
        let res = guard(|| traverse(&what, Src::new(enc.shp.clone()), Some(x), m, &|| h.faulted()));
        match res {
            Ok(r) => r?,
            Err(p) => fail!("panic", "{}: reader panics: {}", what, p),
        }
    }
    // without index too
    let clean = Src::new(enc.shp.clone());
    traverse("clean traversal, no index", clean.handle(), None, m, &never)?;
    for k in 0..clean.ops() {
        inner += 1;
        let s = Src::faulting_kind(enc.shp.clone(), k, c.kind);
        let h = s.handle();
        let what = format!(".shp source (no index) failing its op #{}", k);
        let res = guard(|| traverse(&what, s, None, m, &|| h.faulted()));
        match res {
            Ok(r) => r?,
            Err(p) => fail!("panic", "{}: reader panics: {}", what, p),
        }
    }

    // (c) short reads
    let mut schedules: Vec<Vec<usize>> = vec![vec![1], vec![2], vec![3], vec![7]];
    schedules.push(c.chunks.clone());
    for sch in schedules {
        inner += 1;
        let what = format!("sources returning at most {:?} bytes per read", sch);
        let res = guard(|| {
            traverse(&what, Src::short(enc.shp.clone(), sch.clone()), Some(Src::short(enc.shx.clone(), sch.clone())), m, &never)?;
            traverse(&what, Src::short(enc.shp.clone(), sch.clone()), None, m, &never)
        });
        match res {
            Ok(r) => r?,
            Err(p) => fail!("panic", "{}: reader panics: {}", what, p),
        }
    }
    ctx.evals(inner);
    ctx.class(&format!("header={}", m.ty.name()));
    Ok(())
}

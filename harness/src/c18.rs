//! C18 — a shape's announced byte size equals what its serialisation emits.

use proptest::prelude::*;
use serde::{Deserialize, Serialize};
use shapefile::record::WritableShape;
use shapefile::Shape;
use vlib::gen;
use vlib::kinds::*;
use vlib::libops::*;
use vlib::model::*;
use vlib::refcodec::{self, Mode};
use vlib::run::*;
use vlib::{ensure, fail};

#[derive(Serialize, Deserialize, Debug, Clone, Hash)]
pub struct SizeCase {
    pub ty: Ty,
    /// vertices per part, as handed to the constructor
    pub lens: Vec<usize>,
    /// close rings already (so constructors do not append)
    pub closed: bool,
    /// measure pattern: 0 real, 1 all NO_DATA, 2 NaN then NO_DATA, 3 real then NaN then NO_DATA, 4 all NaN, 5 below threshold, 6 Z NaN
    #[serde(default)]
    pub mpat: u8,
}

fn geom_for(c: &SizeCase) -> Geom {
    let mut k = 0.0f64;
    let parts = c
        .lens
        .iter()
        .enumerate()
        .map(|(pi, &n)| {
            let mut pts: Vec<V> = (0..n)
                .map(|_| {
                    k += 1.0;
                    let first = k == 1.0;
                    let (z, m) = match c.mpat {
                        1 => (k * 2.0, NO_DATA),
                        2 => (k * 2.0, if first { f64::NAN } else { NO_DATA }),
                        3 => (k * 2.0, if first { 5.0 } else if k == 2.0 { f64::NAN } else { NO_DATA }),
                        4 => (k * 2.0, f64::NAN),
                        5 => (k * 2.0, -1e300),
                        6 => (f64::NAN, if first { NO_DATA } else { k }),
                        _ => (k * 2.0, k + 0.25),
                    };
                    v4(k, -k * 0.5, z, m)
                })
                .collect();
            if c.closed {
                if let Some(f) = pts.first().copied() {
                    if pts.len() > 1 {
                        let l = pts.len() - 1;
                        pts[l] = f;
                    }
                }
            }
            Part {
                kind: if c.ty == Ty::Multipatch { (pi % 6) as i32 } else { (pi % 2) as i32 },
                pts,
            }
        })
        .collect();
    Geom {
        ty: c.ty,
        parts,
        bbox: [F(0); 8],
        m_present: true,
    }
    .canon()
}

fn check_size(c: &SizeCase, ctx: &mut Ctx) -> Result<(), Fail> {
    struct F<'a>(&'a SizeCase, &'a mut Ctx);
    impl KindFn for F<'_> {
        type Out = Result<(), Fail>;
        fn call<K: Kind>(self) -> Self::Out
        where
            shapefile::Error: From<<K as TryFrom<Shape>>::Error>,
        {
            let (c, ctx) = (self.0, self.1);
            let g = geom_for(c);
            let s = K::build(&g, Ctor::Plain);
            let v = s.view();
            let lens: Vec<usize> = v.parts.iter().map(|p| p.pts.len()).collect();
            let distinct: std::collections::BTreeSet<usize> = lens.iter().copied().collect();
            if lens.len() >= 2 && distinct.len() >= 2 {
                ctx.nontrivial();
            }
            ctx.class(&format!("parts={}", lens.len().min(9)));
            let announced = s.size_in_bytes();
            let mut buf: Vec<u8> = Vec::new();
            if let Err(e) = s.write_to(&mut buf) {
                fail!("write-error", "write_to: {}", err_str(&e));
            }
            ensure!(
                buf.len() == announced,
                "size-mismatch",
                "{} with part lengths {:?}: size_in_bytes() = {}, write_to emitted {} bytes",
                c.ty.name(),
                lens,
                announced,
                buf.len()
            );
            // a destination accepting only a few bytes per write call still receives every announced byte
            for chunk in [1usize, 3] {
                let d = vlib::io::Dest::with_chunks(vec![chunk]);
                let mut h = d.clone();
                if let Err(e) = s.write_to(&mut h) {
                    fail!("write-error", "write_to on a {}-byte-per-call destination: {}", chunk, err_str(&e));
                }
                ensure!(
                    d.bytes() == buf,
                    "size-mismatch",
                    "{} {:?}: a destination accepting {} byte(s) per call received {} bytes, {} announced",
                    c.ty.name(),
                    lens,
                    chunk,
                    d.bytes().len(),
                    announced
                );
            }
            // through the writer: content-length word == (size + 4) / 2
            let (shp, _) = match write_bytes(&[s.clone(), s.clone()], false, Finish::Drop) {
                Ok(x) => x,
                Err(e) => fail!("write-error", "{}", e),
            };
            ensure!(shp.len() >= 108, "short-file", "file of {} bytes", shp.len());
            let word = i32::from_be_bytes(shp[104..108].try_into().unwrap());
            ensure!(
                (announced + 4) % 2 == 0 && word as usize == (announced + 4) / 2,
                "content-length",
                "record header stores {} words, announced size {} bytes (+4 type code)",
                word,
                announced
            );
            let second = 100 + 8 + announced + 4;
            ensure!(shp.len() == second + 8 + announced + 4, "file-length", "two records occupy {} bytes, expected {}", shp.len() - 100, 2 * (announced + 12));
            if let Err(e) = refcodec::decode(&shp, Mode::Strict) {
                fail!("malformed", "{}", e);
            }
            Ok(())
        }
    }
    dispatch(c.ty, F(c, ctx))
}

pub struct SizeGrid;
impl Prop for SizeGrid {
    type Case = SizeCase;
    fn name() -> &'static str {
        "sizegrid"
    }
    fn rule() -> &'static str {
        "exhaustive grid: 13 types x parts 1..=8 x length patterns {all-min, all k (k<=12), ramp up, ramp down, one long part, \
         empty later parts for polygon/multipatch} x {open, closed} x measure patterns {real, all NO_DATA, NaN then NO_DATA, real-NaN-NO_DATA, all NaN, below threshold, NaN Z}; size_in_bytes() == bytes emitted by write_to; record content-length word == (size+4)/2. Non-trivial: >=2 parts of different lengths; distinct by case hash"
    }
    fn check(c: &SizeCase, ctx: &mut Ctx) -> Result<(), Fail> {
        check_size(c, ctx)
    }
}

impl EnumProp for SizeGrid {
    fn enumerate(_env: &Env) -> Box<dyn Iterator<Item = SizeCase>> {
        let mut v = Vec::new();
        for ty in ALL13 {
            match ty.family() {
                Family::Point => {
                    for mpat in 0..7u8 {
                        v.push(SizeCase {
                            ty,
                            lens: vec![1],
                            closed: false,
                            mpat,
                        })
                    }
                }
                Family::Multipoint => {
                    for n in 1..=40 {
                        for mpat in 0..7u8 {
                            v.push(SizeCase {
                                ty,
                                lens: vec![n],
                                closed: false,
                                mpat,
                            });
                        }
                    }
                }
                fam => {
                    let min = if fam == Family::Polyline { 2 } else { 1 };
                    for parts in 1..=8usize {
                        let mut pats: Vec<Vec<usize>> = Vec::new();
                        for k in min..=12 {
                            pats.push(vec![k; parts]);
                        }
                        pats.push((0..parts).map(|i| min + i).collect());
                        pats.push((0..parts).map(|i| min + parts - 1 - i).collect());
                        for long_at in 0..parts {
                            let mut p = vec![min; parts];
                            p[long_at] = 37;
                            pats.push(p);
                        }
                        if fam != Family::Polyline && parts >= 2 {
                            let mut p = vec![3; parts];
                            for i in (1..parts).step_by(2) {
                                p[i] = 0;
                            }
                            pats.push(p);
                            let mut p = vec![0; parts];
                            p[0] = 1;
                            pats.push(p);
                        }
                        for (pi, p) in pats.into_iter().enumerate() {
                            for closed in [false, true] {
                                // every measure pattern on a rotating subset, pattern 0 everywhere
                                for mpat in [0u8, 1 + ((pi + parts) % 6) as u8] {
                                    v.push(SizeCase {
                                        ty,
                                        lens: p.clone(),
                                        closed,
                                        mpat,
                                    });
                                }
                            }
                        }
                    }
                }
            }
        }
        Box::new(v.into_iter())
    }
}

/// Shapes obtained by READING files (conformant ones and ones with odd but accepted part offsets) announce what they emit too.
#[derive(Serialize, Deserialize, Debug, Clone, Hash)]
pub struct ReadCase {
    pub model: vlib::refcodec::FileModel,
    /// (index among the PartOffset / NumPoints fields, new value)
    pub patches: Vec<(usize, i32)>,
}

pub struct SizeOfRead;
impl Prop for SizeOfRead {
    type Case = ReadCase;
    fn name() -> &'static str {
        "size-of-read-shapes"
    }
    fn rule() -> &'static str {
        "proptest: files from the reference encoder (13 concrete types, foreign layouts), optionally with part offsets / point counts \
         patched to small values; every shape the typed reader returns must announce exactly the bytes its write_to emits, and a file \
         written from those shapes must decode strictly. Non-trivial: a patched part offset was accepted by the reader, or a record uses \
         a layout the writer never emits"
    }
    fn check(c: &ReadCase, ctx: &mut Ctx) -> Result<(), Fail> {
        struct F<'a>(&'a ReadCase, &'a mut Ctx);
        impl KindFn for F<'_> {
            type Out = Result<(), Fail>;
            fn call<K: Kind>(self) -> Self::Out
            where
                shapefile::Error: From<<K as TryFrom<Shape>>::Error>,
            {
                let (c, ctx) = (self.0, self.1);
                let enc = refcodec::encode(&c.model);
                let mut shp = enc.shp.clone();
                let sites: Vec<&refcodec::Field> = enc
                    .fields
                    .iter()
                    .filter(|f| !f.in_shx && matches!(f.kind, refcodec::FieldKind::PartOffset | refcodec::FieldKind::NumPoints))
                    .collect();
                for (i, v) in &c.patches {
                    if !sites.is_empty() {
                        refcodec::patch_field(&mut shp, sites[i % sites.len()], *v);
                    }
                }
                let mut r = match open_mem(&shp, None) {
                    Ok(r) => r,
                    Err(_) => return Ok(()),
                };
                let mut got: Vec<K> = Vec::new();
                for item in r.iter_shapes_as::<K>() {
                    match item {
                        Ok(s) => got.push(s),
                        Err(_) => break,
                    }
                }
                if (!c.patches.is_empty() && !got.is_empty()) || crate::c03::foreign_layout(&c.model) {
                    ctx.nontrivial();
                }
                for (i, s) in got.iter().enumerate() {
                    let announced = s.size_in_bytes();
                    let mut buf = Vec::new();
                    if let Err(e) = s.write_to(&mut buf) {
                        fail!("write-error", "shape {} read from a file cannot be serialised: {}", i, err_str(&e));
                    }
                    ensure!(
                        buf.len() == announced,
                        "size-mismatch",
                        "shape {} ({}) read from a file (patches {:?}): size_in_bytes() = {}, write_to emitted {} bytes",
                        i,
                        s.view().short(),
                        c.patches,
                        announced,
                        buf.len()
                    );
                }
                if !got.is_empty() {
                    let (out, _) = write_bytes(&got, false, Finish::Drop).map_err(|e| Fail::new("write-error", e))?;
                    if let Err(e) = refcodec::decode(&out, Mode::Strict) {
                        fail!("malformed", "file written from shapes that were read back (patches {:?}): {}", c.patches, e);
                    }
                }
                Ok(())
            }
        }
        dispatch(c.model.ty, F(c, ctx))
    }
}

impl RandomProp for SizeOfRead {
    fn strategy(_env: &Env) -> BoxedStrategy<ReadCase> {
        (crate::c03::file_model(4, 4, 6), proptest::collection::vec((any::<usize>(), 0i32..8), 0..3))
            .prop_map(|(mut m, patches)| {
                if m.ty == Ty::Null {
                    // a null-typed file has no typed reading: use a fixed one-point file instead of rejecting the draw
                    m = vlib::refcodec::FileModel::simple(
                        Ty::Point,
                        vec![Geom { ty: Ty::Point, parts: vec![Part { kind: 0, pts: vec![v4(1.5, -2.5, 0.0, 0.0)] }], bbox: [F(0); 8], m_present: false }.canon_file()],
                    );
                }
                m.recs.retain(|r| r.geom.ty != Ty::Null);
                m.trailing.clear();
                ReadCase {
                    model: m,
                    patches: patches.into_iter().map(|(i, v)| (i % 4096, v)).collect(),
                }
            })
            .boxed()
    }
    fn cases(env: &Env) -> u64 {
        env.n(13 * 4000, 13 * 150_000)
    }
}

pub struct SizeRandom;
impl Prop for SizeRandom {
    type Case = SizeCase;
    fn name() -> &'static str {
        "sizerandom"
    }
    fn rule() -> &'static str {
        "proptest: random part counts (<=40) and part lengths (quick <=2000, thorough <=50000 points per part), same oracle as the grid"
    }
    fn check(c: &SizeCase, ctx: &mut Ctx) -> Result<(), Fail> {
        check_size(c, ctx)
    }
}

impl RandomProp for SizeRandom {
    fn strategy(env: &Env) -> BoxedStrategy<SizeCase> {
        let maxlen = env.pickn(2000, 20_000);
        (gen::ty13(), any::<bool>(), 0u8..7)
            .prop_flat_map(move |(ty, closed, mpat)| {
                let (minp, maxparts) = match ty.family() {
                    Family::Point => (1usize, 1usize),
                    Family::Multipoint => (1, 1),
                    Family::Polyline => (2, 40),
                    _ => (1, 40),
                };
                let fam = ty.family();
                gen::svec(gen::size(if fam == Family::Polyline { 2 } else { 0 }, maxlen), 1, maxparts).prop_map(move |mut lens| {
                    if fam == Family::Point {
                        lens = vec![1];
                    }
                    if lens[0] < minp {
                        lens[0] = minp;
                    }
                    SizeCase { ty, lens, closed, mpat }
                })
            })
            .boxed()
    }
    fn cases(env: &Env) -> u64 {
        env.n(13 * 3000, 13 * 25_000)
    }
}

/// Several shapes of different sizes in ONE file, through every writing route: the content-length word of every
/// record is that shape's own announced size (+4), and the record body is that shape's own serialisation.
pub struct SizeFile;
impl Prop for SizeFile {
    type Case = crate::common::FileCase;
    fn name() -> &'static str {
        "sizefile"
    }
    fn rule() -> &'static str {
        "proptest: files of 1-12 shapes of one type with deliberately unequal sizes, written through write_shape (+ finalize calls), \
         the consuming write_shapes, half-and-half, Writer::write_shape_and_record and Writer::write_shapes_and_records; the .shp is \
         walked by its own content-length words: record i's word == (size_in_bytes(shape i) + 4) / 2, its body after the type code is \
         byte-identical to write_to(shape i), and the walk ends exactly at the end of the file. Non-trivial: a shape that is shorter \
         than an earlier shape of the same file"
    }
    fn check(c: &crate::common::FileCase, ctx: &mut Ctx) -> Result<(), Fail> {
        struct F<'a>(&'a crate::common::FileCase, &'a mut Ctx);
        impl KindFn for F<'_> {
            type Out = Result<(), Fail>;
            fn call<K: Kind>(self) -> Self::Out
            where
                shapefile::Error: From<<K as TryFrom<Shape>>::Error>,
            {
                let (c, ctx) = (self.0, self.1);
                let shapes: Vec<K> = build_all(&c.geoms, c.ctor);
                let sizes: Vec<usize> = shapes.iter().map(|s| s.size_in_bytes()).collect();
                if sizes.iter().enumerate().any(|(i, s)| sizes[..i].iter().any(|e| e > s)) {
                    ctx.nontrivial();
                }
                let mut bodies: Vec<Vec<u8>> = Vec::new();
                for s in &shapes {
                    let mut b = Vec::new();
                    s.write_to(&mut b).map_err(|e| Fail::new("write-error", err_str(&e)))?;
                    bodies.push(b);
                }
                let mut files: Vec<(String, Vec<u8>)> = Vec::new();
                let (shp, _) = write_bytes_hist(&shapes, true, c.fin, c.mid_fins, c.rejects).map_err(|e| Fail::new("write-error", e))?;
                files.push((format!("ShapeWriter route {:?}", c.fin), shp));
                for bulk in [false, true] {
                    use shapefile::dbase;
                    use std::convert::TryInto;
                    let (shp, shx, dbf) = (vlib::io::Dest::new(), vlib::io::Dest::new(), vlib::io::Dest::new());
                    {
                        let sw = shapefile::ShapeWriter::with_shx(shp.clone(), shx.clone());
                        let tw = dbase::TableWriterBuilder::new().add_numeric_field("idx".try_into().unwrap(), 10, 0).build_with_dest(dbf.clone());
                        let mut w = shapefile::Writer::new(sw, tw);
                        let rows: Vec<dbase::Record> = (0..shapes.len())
                            .map(|i| {
                                let mut r = dbase::Record::default();
                                r.insert("idx".to_string(), dbase::FieldValue::Numeric(Some(i as f64)));
                                r
                            })
                            .collect();
                        if bulk {
                            w.write_shapes_and_records(shapes.iter().zip(rows.iter())).map_err(|e| Fail::new("write-error", err_str(&e)))?;
                        } else {
                            for (s, r) in shapes.iter().zip(rows.iter()) {
                                w.write_shape_and_record(s, r).map_err(|e| Fail::new("write-error", err_str(&e)))?;
                            }
                        }
                    }
                    files.push((if bulk { "Writer::write_shapes_and_records".to_string() } else { "Writer::write_shape_and_record".to_string() }, shp.bytes()));
                }
                for (route, shp) in files {
                    if shapes.is_empty() {
                        continue;
                    }
                    let mut p = 100usize;
                    for (i, (size, body)) in sizes.iter().zip(&bodies).enumerate() {
                        ensure!(p + 12 <= shp.len(), "file-length", "{}: the file ends at {} before record {} (at {})", route, shp.len(), i, p);
                        let word = i32::from_be_bytes(shp[p + 4..p + 8].try_into().unwrap());
                        ensure!(
                            (size + 4) % 2 == 0 && word >= 0 && word as usize == (size + 4) / 2,
                            "content-length",
                            "{}: record {} of {} stores {} words, its shape announces {} bytes (+4 type code); sizes of the file's shapes: {:?}",
                            route,
                            i,
                            sizes.len(),
                            word,
                            size,
                            sizes
                        );
                        let end = p + 12 + size;
                        ensure!(end <= shp.len(), "file-length", "{}: record {} runs to {} but the file has {} bytes", route, i, end, shp.len());
                        ensure!(shp[p + 12..end] == body[..], "body-differs", "{}: the body of record {} is not what write_to emits for shape {}", route, i, i);
                        p = end;
                    }
                    ensure!(p == shp.len(), "file-length", "{}: records end at {}, the file has {} bytes", route, p, shp.len());
                }
                Ok(())
            }
        }
        dispatch(c.ty, F(c, ctx))
    }
}
impl RandomProp for SizeFile {
    fn strategy(_env: &Env) -> BoxedStrategy<crate::common::FileCase> {
        crate::common::file_case(crate::common::FileGen {
            min_n: 1,
            max_n: 12,
            nan_zm: true,
            max_parts: 5,
            max_pts: 12,
            disk_every: 0,
        })
    }
    fn cases(env: &Env) -> u64 {
        env.n(13 * 3000, 13 * 100_000)
    }
}

//! C12 — destination I/O failures surface from the failing call; finalize is retryable;
//! short writes give byte-identical output (fault enumeration).

use crate::c11::{steps, workload, Step, Workload};
use proptest::prelude::*;
use serde::{Deserialize, Serialize};
use shapefile::dbase;
use shapefile::{Error, Shape, ShapeWriter, Writer};
use std::convert::TryInto;
use vlib::io::{is_marked, Dest, FaultMode};
use vlib::kinds::*;
use vlib::libops::*;
use vlib::run::*;
use vlib::{ensure, fail};

#[derive(Serialize, Deserialize, Debug, Clone, Hash)]
pub struct FaultCase {
    pub w: Workload,
    pub with_shx: bool,
    /// generated short-write schedule (bytes accepted per write call, cycled)
    pub chunks: Vec<usize>,
    /// 0 = ShapeWriter, 1 = the complete Writer (shape + attribute row per call, healthy .dbf destination),
    /// 2 = all shapes through the consuming ShapeWriter::write_shapes, 3 = through Writer::write_shapes_and_records
    #[serde(default)]
    pub route: u8,
    /// index into vlib::io::FAULT_KINDS: the io::ErrorKind the injected failures carry
    #[serde(default)]
    pub kind: u8,
}

pub struct DestFaults;

impl Prop for DestFaults {
    type Case = FaultCase;
    fn name() -> &'static str {
        "destfaults"
    }
    fn rule() -> &'static str {
        "proptest generates workloads as C11 (with and without index destination); a clean run counts the write/seek/flush calls per \
         destination; then for EVERY destination, EVERY k below that count and both modes {one-shot, persistent} the k-th call fails \
         with a marked io::Error. The harness brackets each API call with the destination's op counter: the call during which op k ran \
         must return Err(IoError(marked)) — not Ok, not a panic; a failed finalize is retried (after healing) and must then succeed, \
         and the completed run must leave files byte-identical to the clean run; dropping a writer on a failing destination must not \
         panic. Short-write schedules {1,2,3,7 bytes per call, one generated sequence} must give byte-identical files. One case in six drives the complete \
         Writer (write_shape_and_record, healthy .dbf destination) instead of the ShapeWriter, one in three the consuming bulk calls \
         (ShapeWriter::write_shapes, Writer::write_shapes_and_records: a failure among the ops of the writes must come back from the call); the injected error carries one of ten \
         io::ErrorKind values (Interrupted excluded: write_all retries it by contract). Inner evaluations = injected runs. Non-trivial: workload containing an explicit finalize (k then lands inside finalize / seek / flush calls)"
    }
    fn check(c: &FaultCase, ctx: &mut Ctx) -> Result<(), Fail> {
        struct F<'a>(&'a FaultCase, &'a mut Ctx);
        impl KindFn for F<'_> {
            type Out = Result<(), Fail>;
            fn call<K: Kind>(self) -> Self::Out
            where
                Error: From<<K as TryFrom<Shape>>::Error>,
            {
                faults_k::<K>(self.0, self.1)
            }
        }
        dispatch(c.w.ty, F(c, ctx))
    }
}

impl RandomProp for DestFaults {
    fn max_shrink_iters() -> u32 {
        150
    }
    fn strategy(_env: &Env) -> BoxedStrategy<FaultCase> {
        let big = (vlib::gen::ty13(), 0u8..2).prop_flat_map(|(ty, fin)| {
            let cfg = vlib::gen::GenCfg::new(vlib::gen::Profile::Small, false, 2, 8300);
            // one part with 4096-4200 points (8192-8300 for the Z / M arrays of 1 case in 2)
            let g = prop_oneof![vlib::gen::geom_sized(ty, cfg, 1..=1, 4096..=4200), vlib::gen::geom_sized(ty, cfg, 1..=1, 8192..=8300)];
            g.prop_map(move |g| Workload {
                ty,
                geoms: vec![g],
                fins: vec![0, fin],
                shx_samples: 0,
                bulk: false,
            })
        });
        let many = (prop_oneof![Just(vlib::model::Ty::Point), Just(vlib::model::Ty::PointZ), Just(vlib::model::Ty::Multipoint), Just(vlib::model::Ty::Polyline)], 520usize..1100, 0u8..2).prop_flat_map(|(ty, n, fin)| {
            let cfg = vlib::gen::GenCfg::new(vlib::gen::Profile::Small, false, 1, 2);
            proptest::collection::vec(vlib::gen::geom(ty, cfg), 3).prop_map(move |pool| {
                let geoms: Vec<vlib::model::Geom> = (0..n).map(|i| pool[i % pool.len()].clone()).collect();
                let mut fins = vec![0u8; n + 1];
                fins[n] = fin;
                Workload { ty, geoms, fins, shx_samples: 0, bulk: false }
            })
        });
        (prop_oneof![60 => workload(4, 0), 1 => big.boxed(), 1 => many.boxed()], any::<bool>(), proptest::collection::vec(1usize..12, 1..6), prop_oneof![3 => Just(0u8), 1 => Just(1u8), 1 => Just(2u8), 1 => Just(3u8)], 0u8..vlib::io::FAULT_KINDS.len() as u8)
            .prop_map(|(w, with_shx, chunks, route, kind)| FaultCase { w, with_shx, chunks, route, kind })
            .boxed()
    }
    fn cases(env: &Env) -> u64 {
        env.n(1000, 30_000)
    }
}

struct RunOut {
    shp: Vec<u8>,
    shx: Option<Vec<u8>>,
    ops: (usize, usize),
}

/// One run of the workload. `fault` = (on shx?, mode). Returns the final bytes if the run completed.
enum AnyW {
    S(ShapeWriter<Dest>),
    C(Writer<Dest>),
}

fn row(i: usize) -> dbase::Record {
    let mut r = dbase::Record::default();
    r.insert("idx".to_string(), dbase::FieldValue::Numeric(Some(i as f64)));
    r
}

fn run<K: Kind>(shapes: &[K], st: &[Step], with_shx: bool, fault: Option<(bool, FaultMode)>, chunks: &[usize], route: u8, kind: u8, ctx: &mut Ctx) -> Result<Option<RunOut>, Fail> {
    let mk = |is_shx: bool| {
        let d = match fault {
            Some((on_shx, m)) if on_shx == is_shx => Dest::with_fault_kind(m, kind),
            _ => Dest::new(),
        };
        d.0.borrow_mut().chunks = chunks.to_vec();
        d
    };
    let shp = mk(false);
    let shx = if with_shx { Some(mk(true)) } else { None };
    let faulty = fault.map(|(on_shx, _)| if on_shx { shx.clone().unwrap() } else { shp.clone() });
    let persistent = matches!(fault, Some((_, FaultMode::Persistent(_))));
    let mut completed = true;
    let observed = std::cell::Cell::new(0usize);
    let res = guard(|| -> Result<(), Fail> {
        let sw = match &shx {
            Some(x) => ShapeWriter::with_shx(shp.clone(), x.clone()),
            None => ShapeWriter::new(shp.clone()),
        };
        let mut w = if route == 1 {
            let tw = dbase::TableWriterBuilder::new().add_numeric_field("idx".try_into().unwrap(), 10, 0).build_with_dest(Dest::new());
            AnyW::C(Writer::new(sw, tw))
        } else {
            AnyW::S(sw)
        };
        let mut i = 0;
        for (sk, s) in st.iter().enumerate() {
            let before = faulty.as_ref().map(|d| d.faults().len()).unwrap_or(0);
            let r = match (s, &mut w) {
                (Step::Write, AnyW::S(w)) => {
                    let r = w.write_shape(&shapes[i]);
                    i += 1;
                    r
                }
                (Step::Write, AnyW::C(w)) => {
                    let r = w.write_shape_and_record(&shapes[i], &row(i));
                    i += 1;
                    r
                }
                (Step::Fin, AnyW::S(w)) => w.finalize(),
                // the complete Writer has no finalize
                (Step::Fin, AnyW::C(_)) => continue,
            };
            let hit = faulty.as_ref().map(|d| d.faults().len()).unwrap_or(0) > before;
            if hit {
                observed.set(faulty.as_ref().map(|d| d.faults().len()).unwrap_or(0));
            }
            match (hit, r) {
                (false, Ok(())) => {}
                (false, Err(e)) => fail!("spurious-error", "step #{} {:?} fails without an injected fault: {}", sk, s, err_str(&e)),
                (true, Ok(())) => fail!(
                    "fault-swallowed",
                    "step #{} {:?}: the destination failed during this call but it returned Ok",
                    sk,
                    s
                ),
                (true, Err(e)) => {
                    match &e {
                        Error::IoError(io) if is_marked(io) => {}
                        other => fail!("wrong-error", "step #{} {:?}: injected I/O failure surfaced as {:?}", sk, s, other),
                    }
                    if *s == Step::Fin {
                        ctx.class("fault-inside-finalize");
                        // heal, retry: must complete as an undisturbed run would
                        if let Some(d) = &faulty {
                            d.heal();
                        }
                        if let AnyW::S(w) = &mut w {
                            if let Err(e) = w.finalize() {
                                fail!("finalize-not-retryable", "step #{}: finalize retried on a healed destination fails: {}", sk, err_str(&e));
                            }
                        }
                    } else {
                        ctx.class("fault-inside-write");
                        // a failed write: stop here; dropping the writer (still failing if persistent) must not panic
                        completed = false;
                        let _ = persistent;
                        drop(w);
                        return Ok(());
                    }
                }
            }
        }
        drop(w); // implicit finalize may hit the fault: must not panic
        Ok(())
    });
    match res {
        Ok(r) => r?,
        Err(p) => fail!("panic", "writer panics under an injected destination failure ({:?}): {}", fault, p),
    }
    // a fault that fired inside the implicit finalize of drop (never seen by an explicit call) leaves
    // incomplete files: nothing to compare
    if let Some(d) = &faulty {
        if d.faults().len() > observed.get() {
            completed = false;
        }
    }
    if !completed {
        return Ok(None);
    }
    Ok(Some(RunOut {
        ops: (shp.ops(), shx.as_ref().map(|x| x.ops()).unwrap_or(0)),
        shp: shp.bytes(),
        shx: shx.map(|x| x.bytes()),
    }))
}

/// The consuming bulk calls: one API call writes every shape and then drops the writer. A failure while the shapes are
/// being written must come back from that call; what fails inside the implicit finalize of the drop cannot be
/// returned by anything (the property only asks that it does not panic).
fn bulk_faults_k<K: Kind>(c: &FaultCase, shapes: &[K], ctx: &mut Ctx) -> Result<(), Fail> {
    let rows: Vec<dbase::Record> = (0..shapes.len()).map(row).collect();
    let run_bulk = |fault: Option<(bool, FaultMode)>| -> Result<(Result<(), Error>, Dest, Option<Dest>), String> {
        let mk = |is_shx: bool| match fault {
            Some((on_shx, m)) if on_shx == is_shx => Dest::with_fault_kind(m, c.kind),
            _ => Dest::new(),
        };
        let shp = mk(false);
        let shx = if c.with_shx { Some(mk(true)) } else { None };
        let sw = match &shx {
            Some(x) => ShapeWriter::with_shx(shp.clone(), x.clone()),
            None => ShapeWriter::new(shp.clone()),
        };
        let r = guard(|| {
            if c.route == 2 {
                sw.write_shapes(shapes.iter())
            } else {
                let tw = dbase::TableWriterBuilder::new().add_numeric_field("idx".try_into().unwrap(), 10, 0).build_with_dest(Dest::new());
                Writer::new(sw, tw).write_shapes_and_records(shapes.iter().zip(rows.iter()))
            }
        })?;
        Ok((r, shp, shx))
    };
    // ops issued while the shapes are written (before the drop): measured on a writer that is not dropped yet
    let (write_ops_shp, write_ops_shx) = {
        let shp = Dest::new();
        let shx = if c.with_shx { Some(Dest::new()) } else { None };
        let mut sw = match &shx {
            Some(x) => ShapeWriter::with_shx(shp.clone(), x.clone()),
            None => ShapeWriter::new(shp.clone()),
        };
        for s in shapes {
            sw.write_shape(s).map_err(|e| Fail::new("write-error", err_str(&e)))?;
        }
        let counts = (shp.ops(), shx.as_ref().map(|x| x.ops()).unwrap_or(0));
        drop(sw);
        counts
    };
    let (clean_r, clean_shp, clean_shx) = run_bulk(None).map_err(|p| Fail::new("panic", format!("bulk write panics: {}", p)))?;
    clean_r.map_err(|e| Fail::new("spurious-error", format!("bulk write fails without an injected fault: {}", err_str(&e))))?;
    let mut runs = 1u64;
    for on_shx in [false, true] {
        if on_shx && !c.with_shx {
            continue;
        }
        let total = if on_shx { clean_shx.as_ref().map(|x| x.ops()).unwrap_or(0) } else { clean_shp.ops() };
        let in_writes = if on_shx { write_ops_shx } else { write_ops_shp };
        let ks: Vec<usize> = if total <= 3000 { (0..total).collect() } else { (0..total).filter(|k| *k < 300 || *k + 300 >= total || k % 97 == 0).collect() };
        for k in ks {
            for mode in [FaultMode::OneShot(k), FaultMode::Persistent(k)] {
                runs += 1;
                let what = format!("{} with the {} failing op #{} ({:?})", if c.route == 2 { "write_shapes" } else { "write_shapes_and_records" }, if on_shx { ".shx" } else { ".shp" }, k, mode);
                let (r, shp, shx) = run_bulk(Some((on_shx, mode))).map_err(|p| Fail::new("panic", format!("{}: panics: {}", what, p)))?;
                let fired = if on_shx { shx.as_ref().map(|x| !x.faults().is_empty()).unwrap_or(false) } else { !shp.faults().is_empty() };
                match (&r, fired) {
                    (Err(e), false) => fail!("spurious-error", "{}: fails although the fault never fired: {}", what, err_str(e)),
                    (Ok(()), true) if k < in_writes => fail!(
                        "fault-swallowed",
                        "{}: the destination failed while the shapes were being written (ops 0..{} belong to the writes) but the call returned Ok",
                        what,
                        in_writes
                    ),
                    (Err(e), true) => match e {
                        Error::IoError(io) if is_marked(io) => {}
                        other => fail!("wrong-error", "{}: injected I/O failure surfaced as {:?}", what, other),
                    },
                    _ => {}
                }
            }
        }
    }
    ctx.evals(runs);
    ctx.class(if c.route == 2 { "bulk-shape-writer" } else { "bulk-complete-writer" });
    Ok(())
}

fn faults_k<K: Kind>(c: &FaultCase, ctx: &mut Ctx) -> Result<(), Fail> {
    let shapes: Vec<K> = build_all(&c.w.geoms, Ctor::Plain);
    if c.route >= 2 {
        ctx.nontrivial();
        return bulk_faults_k::<K>(c, &shapes, ctx);
    }
    let st = steps(&c.w);
    if st.contains(&Step::Fin) {
        ctx.nontrivial();
    }
    ctx.class(if c.route == 1 { "complete-writer" } else { "shape-writer" });
    let mut dummy = Ctx::default();
    let clean = run(&shapes, &st, c.with_shx, None, &[], c.route, c.kind, &mut dummy)?.expect("clean run completes");
    let mut runs = 1u64;
    for on_shx in [false, true] {
        if on_shx && !c.with_shx {
            continue;
        }
        let n_ops = if on_shx { clean.ops.1 } else { clean.ops.0 };
        // every k for ordinary workloads; for huge ones every 97th plus the first and last 300 operations
        let ks: Vec<usize> = if n_ops <= 3000 { (0..n_ops).collect() } else { (0..n_ops).filter(|k| *k < 300 || *k + 300 >= n_ops || k % 97 == 0).collect() };
        if n_ops > 3000 {
            ctx.class("huge-workload(sampled k)");
        }
        for k in ks {
            for mode in [FaultMode::OneShot(k), FaultMode::Persistent(k)] {
                runs += 1;
                if let Some(out) = run(&shapes, &st, c.with_shx, Some((on_shx, mode)), &[], c.route, c.kind, ctx)? {
                    ensure!(
                        out.shp == clean.shp && out.shx == clean.shx,
                        "retry-differs",
                        "fault {:?} on {}: after the retried finalize the files differ from the undisturbed run",
                        mode,
                        if on_shx { ".shx" } else { ".shp" }
                    );
                }
            }
        }
    }
    // short writes
    let mut schedules: Vec<Vec<usize>> = vec![vec![1], vec![2], vec![3], vec![7]];
    schedules.push(c.chunks.clone());
    for sch in schedules {
        runs += 1;
        let out = run(&shapes, &st, c.with_shx, None, &sch, c.route, c.kind, &mut dummy)?.expect("short-write run completes");
        ensure!(
            out.shp == clean.shp && out.shx == clean.shx,
            "short-write-differs",
            "destination accepting {:?} bytes per call received different bytes",
            sch
        );
    }
    ctx.evals(runs);
    Ok(())
}

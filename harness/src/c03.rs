//! C03 — the reader decodes every spec-conformant .shp, including foreign layouts.
//! C14 — with an index, records are located by the index alone.

use proptest::prelude::*;
use serde::{Deserialize, Serialize};
use shapefile::{Error, Shape};
use vlib::gen;
use vlib::kinds::*;
use vlib::libops::*;
use vlib::model::*;
use vlib::refcodec::{self, FileModel, Rec};
use vlib::run::*;
use vlib::{ensure, fail};

pub use vlib::oracles::cmp_read;

pub fn foreign_layout(m: &FileModel) -> bool {
    !m.trailing.is_empty()
        || m.recs.iter().enumerate().any(|(i, r)| {
            r.number != i as i32 + 1
                || r.geom.ty == Ty::Null
                || (r.geom.ty.carries_m() && !r.geom.m_present)
                || (r.geom.ty.is_multipart() && (r.geom.parts.is_empty() || r.geom.parts.iter().any(|p| p.pts.len() <= 1)))
                || (r.geom.ty.family() == Family::Multipoint && r.geom.npoints() == 0)
        })
}

pub fn file_model(max_n: usize, max_parts: usize, max_pts: usize) -> BoxedStrategy<FileModel> {
    (gen::ty14(), proptest::array::uniform8(gen::f_anybits()), gen::svec(any::<u8>().boxed(), 0, 64), 0u8..4)
        .prop_flat_map(move |(ty, header_bbox, trailing, numbering)| {
            let rec = prop_oneof![
                5 => gen::fgeom(ty, max_parts, max_pts),
                1 => Just(Geom::null()),
            ];
            (gen::svec((rec, any::<i32>()).boxed(), 0, max_n), 0u8..10, any::<u16>()).prop_map(move |(mut recs, rel, ix)| {
                // a record repeated right after itself / all records identical
                if !recs.is_empty() {
                    let i = gen::pick(ix, recs.len());
                    if rel == 0 {
                        let d = recs[i].clone();
                        recs.insert(i + 1, d);
                    } else if rel == 1 {
                        let d = recs[i].clone();
                        for r in recs.iter_mut() {
                            *r = d.clone();
                        }
                    }
                }
                recs
            }).prop_map(move |recs| FileModel {
                ty,
                header_bbox,
                recs: recs
                    .into_iter()
                    .enumerate()
                    .map(|(i, (geom, rnd))| Rec {
                        number: match numbering {
                            0 | 1 => i as i32 + 1,
                            2 => i as i32,
                            _ => rnd,
                        },
                        geom,
                    })
                    .collect(),
                trailing: trailing.clone(),
                order: vec![],
                fillers: vec![],
            })
        })
        .boxed()
}

pub struct Foreign;

impl Prop for Foreign {
    type Case = FileModel;
    fn name() -> &'static str {
        "foreign"
    }
    fn rule() -> &'static str {
        "proptest draws a file model directly (any of the 14 header codes; 0..n records of the header type or null; optional M block \
         present/absent per record; 24- and 32-byte PointZ; empty and single-vertex parts; zero parts; zero points; arbitrary stored \
         boxes and record numbers; any f64 bit patterns incl. NaN; 0..64 trailing bytes) and encodes it with the reference encoder. \
         Oracle: ShapeReader (iter_shapes, read, read_as::<T> when no null record; with and without the encoder's .shx) returns one \
         item per record in order with matching variant, parts, patch kinds, bit-identical X/Y/Z, absent measures == NO_DATA, present \
         measures normalised, stored box as stored; iteration ends at the declared length. Non-trivial: at least one record uses a \
         layout the library's writer never emits"
    }
    fn check(m: &FileModel, ctx: &mut Ctx) -> Result<(), Fail> {
        let enc = refcodec::encode(m);
        let n = m.recs.len();
        ctx.class(&format!("header={}", m.ty.name()));
        ctx.class(match n {
            0 => "records=0",
            1 => "records=1",
            _ => "records>=2",
        });
        if foreign_layout(m) {
            ctx.nontrivial();
        }
        for r in &m.recs {
            if r.geom.ty == Ty::Null {
                ctx.class("null-record");
            } else if r.geom.ty.carries_m() && !r.geom.m_present {
                ctx.class("m-block-absent");
            }
            if r.geom.ty.is_multipart() && r.geom.parts.is_empty() {
                ctx.class("zero-parts");
            }
            if r.geom.ty.is_multipart() && r.geom.parts.iter().any(|p| p.pts.is_empty()) {
                ctx.class("empty-part");
            }
        }
        if !m.trailing.is_empty() {
            ctx.class("trailing-bytes");
        }
        for with_shx in [false, true] {
            let sx = if with_shx { Some(&enc.shx[..]) } else { None };
            let tag = if with_shx { "shx" } else { "noshx" };
            let mut r = open_mem(&enc.shp, sx).map_err(|e| Fail::new("open-error", format!("{}: {}", tag, err_str(&e))))?;
            ensure!(ty_of(r.header().shape_type) == m.ty, "header-type", "header type {:?}", r.header().shape_type);
            let (items, over) = drain_capped(r.iter_shapes(), n + 2);
            ensure!(!over, "too-many-items", "{}: iteration yields more than {} items", tag, n);
            ensure!(items.len() == n, "count", "{}: {} items for {} records", tag, items.len(), n);
            for (i, it) in items.iter().enumerate() {
                match it {
                    Ok(s) => {
                        if let Err(e) = cmp_read(&m.recs[i].geom, &view_shape(s)) {
                            fail!("decode-differs", "{}: record {} ({}): {}", tag, i, m.recs[i].geom.short(), e);
                        }
                    }
                    Err(e) => fail!("valid-record-rejected", "{}: record {} ({}): {}", tag, i, m.recs[i].geom.short(), err_str(e)),
                }
            }
            let all = open_mem(&enc.shp, sx)
                .and_then(|r| r.read())
                .map_err(|e| Fail::new("valid-record-rejected", format!("{}: read(): {}", tag, err_str(&e))))?;
            ensure!(all.len() == n, "count", "{}: read() returns {} of {}", tag, all.len(), n);
            for (i, s) in all.iter().enumerate() {
                if let Err(e) = cmp_read(&m.recs[i].geom, &view_shape(s)) {
                    fail!("decode-differs", "{}: read() record {}: {}", tag, i, e);
                }
            }
            if with_shx {
                let mut r = open_mem(&enc.shp, sx).map_err(|e| Fail::new("open-error", err_str(&e)))?;
                ensure!(r.shape_count().ok() == Some(n), "shape-count", "shape_count {:?} for {} records", r.shape_count().ok(), n);
                for i in (0..n).rev() {
                    match r.read_nth_shape(i) {
                        Some(Ok(s)) => {
                            if let Err(e) = cmp_read(&m.recs[i].geom, &view_shape(&s)) {
                                fail!("decode-differs", "read_nth_shape({}): {}", i, e);
                            }
                        }
                        other => fail!("valid-record-rejected", "read_nth_shape({}): {:?}", i, other.map(|r| r.map(|_| ()).map_err(|e| err_str(&e)))),
                    }
                }
            }
        }
        // Iterator adaptors on the foreign file, with and without index
        {
            let expect: Vec<Geom> = m.recs.iter().map(|r| r.geom.clone()).collect();
            adaptor_routes("foreign/noshx", || open_mem(&enc.shp, None), &expect, cmp_read).map_err(|(k, msg)| Fail::new(if k == "shape-differs" { "decode-differs" } else { &k }, msg))?;
            adaptor_routes("foreign/shx", || open_mem(&enc.shp, Some(&enc.shx[..])), &expect, cmp_read).map_err(|(k, msg)| Fail::new(if k == "shape-differs" { "decode-differs" } else { &k }, msg))?;
        }
        // the same file read from disk by path (BufReader<File>), for one model in eight
        if (n + m.trailing.len() + m.ty.code() as usize) % 8 == 0 || n >= 1000 || (!m.trailing.is_empty() && (n + m.trailing.len()) % 3 == 0) {
            ctx.class("from_path-route");
            let p = crate::common::scratch_dir().join("c03.shp");
            std::fs::write(&p, &enc.shp).map_err(|e| Fail::new("disk-io", e.to_string()))?;
            // first the .shp alone (no index next to it): sequential reading must stop at the DECLARED length
            let _ = std::fs::remove_file(p.with_extension("shx"));
            let alone = shapefile::read_shapes(&p).map_err(|e| Fail::new("valid-record-rejected", format!("read_shapes(path, no .shx next to it; {} bytes after the declared length): {}", m.trailing.len(), err_str(&e))))?;
            ensure!(alone.len() == n, "count", "read_shapes(path, no .shx) returns {} of {} ({} bytes after the declared length)", alone.len(), n, m.trailing.len());
            for (i, s) in alone.iter().enumerate() {
                if let Err(e) = cmp_read(&m.recs[i].geom, &view_shape(s)) {
                    fail!("decode-differs", "read_shapes(path, no .shx) record {}: {}", i, e);
                }
            }
            std::fs::write(p.with_extension("shx"), &enc.shx).map_err(|e| Fail::new("disk-io", e.to_string()))?;
            let all = shapefile::read_shapes(&p).map_err(|e| Fail::new("valid-record-rejected", format!("read_shapes(path): {}", err_str(&e))))?;
            ensure!(all.len() == n, "count", "read_shapes(path) returns {} of {}", all.len(), n);
            for (i, s) in all.iter().enumerate() {
                if let Err(e) = cmp_read(&m.recs[i].geom, &view_shape(s)) {
                    fail!("decode-differs", "read_shapes(path) record {}: {}", i, e);
                }
            }
            let mut r = shapefile::ShapeReader::from_path(&p).map_err(|e| Fail::new("open-error", err_str(&e)))?;
            for i in (0..n).rev() {
                match r.read_nth_shape(i) {
                    Some(Ok(s)) => {
                        if let Err(e) = cmp_read(&m.recs[i].geom, &view_shape(&s)) {
                            fail!("decode-differs", "from_path read_nth_shape({}): {}", i, e);
                        }
                    }
                    other => fail!("valid-record-rejected", "from_path read_nth_shape({}): {:?}", i, other.map(|r| r.map(|_| ()).map_err(|e| err_str(&e)))),
                }
            }
        }
        // typed read when the file has no null record
        if m.ty != Ty::Null && m.recs.iter().all(|r| r.geom.ty == m.ty) {
            struct T<'a>(&'a FileModel, &'a [u8]);
            impl KindFn for T<'_> {
                type Out = Result<(), Fail>;
                fn call<K: Kind>(self) -> Self::Out
                where
                    Error: From<<K as TryFrom<Shape>>::Error>,
                {
                    let v = open_mem(self.1, None)
                        .and_then(|r| r.read_as::<K>())
                        .map_err(|e| Fail::new("valid-record-rejected", format!("read_as::<{}>: {}", K::TY.name(), err_str(&e))))?;
                    ensure!(v.len() == self.0.recs.len(), "count", "read_as returns {} of {}", v.len(), self.0.recs.len());
                    for (i, s) in v.iter().enumerate() {
                        if let Err(e) = cmp_read(&self.0.recs[i].geom, &s.view()) {
                            fail!("decode-differs", "read_as record {}: {}", i, e);
                        }
                    }
                    Ok(())
                }
            }
            dispatch(m.ty, T(m, &enc.shp))?;
        }
        Ok(())
    }
}

impl RandomProp for Foreign {
    fn strategy(env: &Env) -> BoxedStrategy<FileModel> {
        if env.thorough() {
            file_model(40, 10, 60)
        } else {
            file_model(12, 6, 12)
        }
    }
    fn cases(env: &Env) -> u64 {
        env.n(14 * 10_000, 14 * 300_000)
    }
}

pub struct ForeignBufio;
impl Prop for ForeignBufio {
    type Case = FileModel;
    fn name() -> &'static str {
        "foreign-bufio"
    }
    fn rule() -> &'static str {
        "proptest: 3000-8000 tiny records of mixed sizes (null records, points with and without M, multipoints with 0-2 points, \
         one- and two-vertex parts) encoded by the reference encoder, read in memory AND by path (read_shapes, ShapeReader::from_path \
         random access): files of 60-400 KB so that record headers and bodies straddle BufReader's 8 KiB buffer edges at every \
         4-byte alignment; non-trivial: every case"
    }
    fn check(m: &FileModel, ctx: &mut Ctx) -> Result<(), Fail> {
        ctx.nontrivial();
        Foreign::check(m, ctx)
    }
}
impl RandomProp for ForeignBufio {
    fn strategy(_env: &Env) -> BoxedStrategy<FileModel> {
        gen::ty14()
            .prop_flat_map(|ty| {
                let rec = prop_oneof![4 => gen::fgeom(ty, 2, 2), 1 => Just(Geom::null())];
                proptest::collection::vec(rec, 3000..=8000).prop_map(move |geoms| FileModel::simple(ty, geoms))
            })
            .boxed()
    }
    fn cases(env: &Env) -> u64 {
        env.n(14, 140)
    }
}

pub struct ForeignLarge;
impl Prop for ForeignLarge {
    type Case = FileModel;
    fn name() -> &'static str {
        "foreign-large"
    }
    fn rule() -> &'static str {
        "proptest: the foreign-layout oracle on LARGE models (130-300 records, or records with 260-330 parts, or 70-200 points per part);          non-trivial: every case"
    }
    fn check(m: &FileModel, ctx: &mut Ctx) -> Result<(), Fail> {
        ctx.nontrivial();
        Foreign::check(m, ctx)
    }
}
impl RandomProp for ForeignLarge {
    fn strategy(_env: &Env) -> BoxedStrategy<FileModel> {
        (gen::ty14(), 0u8..3)
            .prop_flat_map(|(ty, mode)| {
                let (n, parts, pts) = match mode {
                    0 => (130usize..=300, 0usize..=2, 0usize..=3),
                    1 => (1usize..=2, 260usize..=330, 0usize..=2),
                    _ => (1usize..=2, 1usize..=2, 70usize..=200),
                };
                proptest::collection::vec(gen::fgeom_sized(ty, parts, pts), n).prop_map(move |geoms| FileModel::simple(ty, geoms))
            })
            .boxed()
    }
    fn cases(env: &Env) -> u64 {
        env.n(14 * 20, 14 * 600)
    }
}

// ---------------------------------------------------------------------------------------------
// C14

#[derive(Serialize, Deserialize, Debug, Clone, Hash)]
pub struct LayoutCase {
    pub model: FileModel,
}

pub struct IndexOnly;

fn filler() -> BoxedStrategy<Vec<u8>> {
    // even lengths only: index offsets are expressed in 16-bit words
    let len = prop_oneof![4 => Just(0usize), 3 => 1usize..=8, 1 => 9usize..=60];
    (len, 0u8..4, any::<u64>())
        .prop_map(|(words, kind, seed)| {
            let n = words * 2;
            let mut v = vec![0u8; n];
            match kind {
                0 => {}
                1 => {
                    let mut x = seed | 1;
                    for b in v.iter_mut() {
                        x ^= x << 13;
                        x ^= x >> 7;
                        x ^= x << 17;
                        *b = x as u8;
                    }
                }
                2 => {
                    // looks like a record header: number 1, length 10 words, type Point
                    let pat = [0u8, 0, 0, 1, 0, 0, 0, 10, 1, 0, 0, 0];
                    for (i, b) in v.iter_mut().enumerate() {
                        *b = pat[i % pat.len()];
                    }
                }
                _ => {
                    // a complete valid Point record
                    let g = Geom {
                        ty: Ty::Point,
                        parts: vec![Part {
                            kind: 0,
                            pts: vec![v4(7.0, 7.0, 0.0, 0.0)],
                        }],
                        bbox: [F(0); 8],
                        m_present: false,
                    };
                    let (c, _) = refcodec::encode_content(&g);
                    let mut rec = vec![0u8, 0, 0, 9, 0, 0, 0, 10];
                    rec.extend(c);
                    for (i, b) in v.iter_mut().enumerate() {
                        *b = rec[i % rec.len()];
                    }
                }
            }
            v
        })
        .boxed()
}

impl Prop for IndexOnly {
    type Case = LayoutCase;
    fn name() -> &'static str {
        "indexonly"
    }
    fn rule() -> &'static str {
        "proptest: record set from the file model (13 types), a generated permutation as physical order, generated filler runs \
         (length 0 included; zeros / random / bytes shaped like a record header / a whole valid record) before, between and after \
         records, header length covering the whole file, .shx in index order (reference encoder). Oracle: with_shx(..).iter_shapes() \
         yields one shape per index entry, in index order, each equal to the record stored at that entry's offset; equals \
         read_nth_shape(i) for all i; shape_count == entries. Non-trivial: non-identity permutation or a non-empty filler between two records"
    }
    fn check(c: &LayoutCase, ctx: &mut Ctx) -> Result<(), Fail> {
        let m = &c.model;
        let n = m.recs.len();
        let enc = refcodec::encode(m);
        let permuted = !m.order.is_empty() && m.order.iter().enumerate().any(|(i, o)| i != *o);
        let filled = m.fillers.iter().enumerate().any(|(k, f)| k > 0 && k < n && !f.is_empty());
        if permuted {
            ctx.class("permuted");
        }
        if filled {
            ctx.class("filler-between");
        }
        if m.fillers.first().map(|f| !f.is_empty()).unwrap_or(false) {
            ctx.class("filler-before");
        }
        if m.fillers.get(n).map(|f| !f.is_empty()).unwrap_or(false) {
            ctx.class("filler-after");
        }
        if n >= 2 && (permuted || filled) {
            ctx.nontrivial();
        }
        let mut r = open_mem(&enc.shp, Some(&enc.shx)).map_err(|e| Fail::new("open-error", err_str(&e)))?;
        ensure!(r.shape_count().ok() == Some(n), "shape-count", "shape_count {:?} for {} index entries", r.shape_count().ok(), n);
        let (items, over) = drain_capped(r.iter_shapes(), n + 2);
        ensure!(!over, "too-many-items", "iteration yields more than {} items", n);
        ensure!(
            items.len() == n,
            "count",
            "iteration with index yields {} items for {} index entries (physical order {:?})",
            items.len(),
            n,
            m.order
        );
        let mut seq = Vec::new();
        for (i, it) in items.iter().enumerate() {
            match it {
                Ok(s) => {
                    let v = view_shape(s);
                    if let Err(e) = crate::c03::cmp_read(&m.recs[i].geom, &v) {
                        fail!("wrong-record", "index entry {} (byte offset {}): {}", i, enc.rec_spans[i].0, e);
                    }
                    seq.push(v);
                }
                Err(e) => fail!("valid-record-rejected", "index entry {}: {}", i, err_str(e)),
            }
        }
        for i in (0..n).rev() {
            match r.read_nth_shape(i) {
                Some(Ok(s)) => ensure!(view_shape(&s) == seq[i], "nth-vs-iteration", "read_nth_shape({}) differs from iteration item {}", i, i),
                other => fail!("valid-record-rejected", "read_nth_shape({}): {:?}", i, other.map(|r| r.map(|_| ()).map_err(|e| err_str(&e)))),
            }
        }
        ensure!(r.read_nth_shape(n).is_none(), "nth-out-of-range", "read_nth_shape({}) returns something", n);
        // the consuming bulk routes follow the index as well
        match open_mem(&enc.shp, Some(&enc.shx)).map_err(|e| Fail::new("open-error", err_str(&e)))?.read() {
            Ok(v) => {
                ensure!(v.len() == n, "count", "ShapeReader::read() returns {} shapes for {} index entries", v.len(), n);
                for (i, s) in v.iter().enumerate() {
                    ensure!(view_shape(s) == seq[i], "wrong-record", "ShapeReader::read(): item {} differs from index entry {} (physical order {:?})", i, i, m.order);
                }
            }
            Err(e) => fail!("valid-record-rejected", "ShapeReader::read(): {}", err_str(&e)),
        }
        if m.ty != Ty::Null && m.recs.iter().all(|r| r.geom.ty == m.ty) {
            struct ReadAs<'a>(&'a [u8], &'a [u8], &'a [Geom], &'a [usize]);
            impl KindFn for ReadAs<'_> {
                type Out = Result<(), Fail>;
                fn call<K: Kind>(self) -> Self::Out
                where
                    Error: From<<K as TryFrom<Shape>>::Error>,
                {
                    match open_mem(self.0, Some(self.1)).map_err(|e| Fail::new("open-error", err_str(&e)))?.read_as::<K>() {
                        Ok(v) => {
                            ensure!(v.len() == self.2.len(), "count", "ShapeReader::read_as() returns {} shapes for {} index entries", v.len(), self.2.len());
                            for (i, s) in v.iter().enumerate() {
                                ensure!(s.view() == self.2[i], "wrong-record", "ShapeReader::read_as(): item {} differs from index entry {} (physical order {:?})", i, i, self.3);
                            }
                            Ok(())
                        }
                        Err(e) => fail!("valid-record-rejected", "ShapeReader::read_as(): {}", err_str(&e)),
                    }
                }
            }
            dispatch(m.ty, ReadAs(&enc.shp, &enc.shx, &seq, &m.order))?;
        }
        // Iterator adaptors follow the index too
        adaptor_routes("indexed", || open_mem(&enc.shp, Some(&enc.shx[..])), &seq, |e, g| if e == g { Ok(()) } else { Err("differs from the plain iteration item".to_string()) })
            .map_err(|(k, msg)| Fail::new(if k == "shape-differs" { "wrong-record" } else { &k }, msg))?;
        // sources that return fewer bytes than asked per read call must be followed the same way
        for chunk in [1usize, 3, 7] {
            let sr = vlib::libops::open_src(vlib::io::Src::short(enc.shp.clone(), vec![chunk]), Some(vlib::io::Src::short(enc.shx.clone(), vec![chunk])))
                .map_err(|e| Fail::new("open-error", format!("short-read source ({} bytes per call): {}", chunk, err_str(&e))))?;
            let mut sr = sr;
            let (items, over) = drain_capped(sr.iter_shapes(), n + 2);
            ensure!(!over && items.len() == n, "count", "source returning {} byte(s) per read: {} items for {} index entries", chunk, items.len(), n);
            for (i, it) in items.iter().enumerate() {
                match it {
                    Ok(s) => ensure!(view_shape(s) == seq[i], "wrong-record", "source returning {} byte(s) per read: item {} differs from index entry {}", chunk, i, i),
                    Err(e) => fail!("valid-record-rejected", "source returning {} byte(s) per read: index entry {}: {}", chunk, i, err_str(e)),
                }
            }
        }
        // one case in eight (and every big file): the same pair of files opened by path
        if (n + enc.shp.len()) % 8 == 0 || n >= 1000 {
            ctx.class("from_path-route");
            let p = crate::common::scratch_dir().join("c14.shp");
            std::fs::write(&p, &enc.shp).map_err(|e| Fail::new("disk-io", e.to_string()))?;
            std::fs::write(p.with_extension("shx"), &enc.shx).map_err(|e| Fail::new("disk-io", e.to_string()))?;
            match shapefile::read_shapes(&p) {
                Ok(v) => {
                    ensure!(v.len() == n, "count", "read_shapes(path) returns {} shapes for {} index entries", v.len(), n);
                    for (i, s) in v.iter().enumerate() {
                        ensure!(view_shape(s) == seq[i], "wrong-record", "read_shapes(path): item {} differs from index entry {}", i, i);
                    }
                }
                Err(e) => fail!("valid-record-rejected", "read_shapes(path): {}", err_str(&e)),
            }
            // the complete by-path one-liner (needs a .dbf): pairs come in index order too
            if n <= 4000 {
                std::fs::write(p.with_extension("dbf"), dbf_with_rows(n)).map_err(|e| Fail::new("disk-io", e.to_string()))?;
                match shapefile::read(&p) {
                    Ok(v) => {
                        ensure!(v.len() == n, "count", "shapefile::read(path) returns {} pairs for {} index entries", v.len(), n);
                        for (i, (s, rec)) in v.iter().enumerate() {
                            ensure!(view_shape(s) == seq[i], "wrong-record", "shapefile::read(path): pair {} does not hold the record of index entry {} (physical order {:?})", i, i, m.order);
                            let ri = match rec.get("idx") {
                                Some(shapefile::dbase::FieldValue::Numeric(Some(x))) => *x as usize,
                                _ => usize::MAX,
                            };
                            ensure!(ri == i, "wrong-record", "shapefile::read(path): pair {} comes with row {}", i, ri);
                        }
                    }
                    Err(e) => fail!("valid-record-rejected", "shapefile::read(path): {}", err_str(&e)),
                }
            }
            let mut pr = shapefile::ShapeReader::from_path(&p).map_err(|e| Fail::new("open-error", err_str(&e)))?;
            ensure!(pr.shape_count().ok() == Some(n), "shape-count", "from_path: shape_count {:?} for {} index entries", pr.shape_count().ok(), n);
            let (items, over) = drain_capped(pr.iter_shapes(), n + 2);
            ensure!(!over && items.len() == n, "count", "from_path: iteration yields {} items for {} index entries", items.len(), n);
            for (i, it) in items.iter().enumerate() {
                match it {
                    Ok(s) => ensure!(view_shape(s) == seq[i], "wrong-record", "from_path: item {} differs from index entry {}", i, i),
                    Err(e) => fail!("valid-record-rejected", "from_path: index entry {}: {}", i, err_str(e)),
                }
            }
        }
        // the complete reader (shape + attribute row) follows the index too: assembled around a fresh ShapeReader, and
        // around one that already delivered its first shape (it then continues with entry 1 or starts over)
        if n >= 1 && n <= 64 {
            use shapefile::dbase;
            let dbf = dbf_with_rows(n);
            for used in [false, true] {
                let mut sr = open_mem(&enc.shp, Some(&enc.shx)).map_err(|e| Fail::new("open-error", err_str(&e)))?;
                if used {
                    match sr.iter_shapes().next() {
                        Some(Ok(s)) => ensure!(view_shape(&s) == seq[0], "wrong-record", "first item on a second reader differs"),
                        other => fail!("valid-record-rejected", "first item on a second reader: {:?}", other.map(|r| r.map(|_| ()).map_err(|e| err_str(&e)))),
                    }
                }
                let dr = dbase::Reader::new(std::io::Cursor::new(dbf.clone())).map_err(|e| Fail::new("open-error", format!("dbf: {:?}", e)))?;
                let mut cr = shapefile::Reader::new(sr, dr);
                let (items, over) = drain_capped(cr.iter_shapes_and_records(), n + 2);
                ensure!(!over, "too-many-items", "Reader::new(..).iter_shapes_and_records yields more than {} items", n);
                let mut got = Vec::new();
                for (i, it) in items.iter().enumerate() {
                    match it {
                        Ok((s, _)) => got.push(view_shape(s)),
                        Err(e) => fail!("valid-record-rejected", "Reader::new(shape reader{}, dbf): item {}: {}", if used { " that delivered one shape" } else { "" }, i, err_str(e)),
                    }
                }
                let all = got == seq;
                let rest = used && got[..] == seq[1..];
                ensure!(
                    all || rest,
                    "wrong-record",
                    "Reader::new(shape reader{}, dbf) yields {} shapes that are neither the index entries 0.. nor 1.. in order",
                    if used { " that delivered one shape" } else { "" },
                    got.len()
                );
            }
        }
        // iteration after random access (the last one was at index 0) still follows the index
        let (items, over) = drain_capped(r.iter_shapes(), n + 2);
        ensure!(!over && items.len() == n, "count", "iteration after random access yields {} items for {} index entries", items.len(), n);
        for (i, it) in items.iter().enumerate() {
            match it {
                Ok(s) => ensure!(view_shape(s) == seq[i], "nth-vs-iteration", "iteration after random access: item {} differs from index entry {}", i, i),
                Err(e) => fail!("valid-record-rejected", "iteration after random access: index entry {}: {}", i, err_str(e)),
            }
        }
        Ok(())
    }
}

pub struct IndexOnlyBufio;
impl Prop for IndexOnlyBufio {
    type Case = LayoutCase;
    fn name() -> &'static str {
        "indexonly-bufio"
    }
    fn rule() -> &'static str {
        "proptest: 1500-4000 small records in index order separated by filler runs of 0-16 bytes, read in memory, through short-read \
         sources and by path (BufReader<File>): files far beyond 8 KiB so that fillers and record headers straddle buffer edges; \
         non-trivial: every case"
    }
    fn check(c: &LayoutCase, ctx: &mut Ctx) -> Result<(), Fail> {
        ctx.nontrivial();
        IndexOnly::check(c, ctx)
    }
}
impl RandomProp for IndexOnlyBufio {
    fn strategy(_env: &Env) -> BoxedStrategy<LayoutCase> {
        (gen::ty13(), 1500usize..=4000)
            .prop_flat_map(|(ty, n)| {
                let small_filler = (0usize..=8, any::<u8>()).prop_map(|(w, b)| vec![b; w * 2]);
                (proptest::collection::vec(gen::fgeom(ty, 2, 2), n), proptest::collection::vec(small_filler, n + 1)).prop_map(move |(geoms, fillers)| {
                    let mut m = FileModel::simple(ty, geoms);
                    m.order = (0..n).collect();
                    m.fillers = fillers;
                    LayoutCase { model: m }
                })
            })
            .boxed()
    }
    fn cases(env: &Env) -> u64 {
        env.n(13, 130)
    }
}

impl RandomProp for IndexOnly {
    fn strategy(env: &Env) -> BoxedStrategy<LayoutCase> {
        let (max_n, parts, pts) = if env.thorough() { (16, 6, 30) } else { (8, 4, 8) };
        (gen::ty13(), 0usize..=max_n)
            .prop_flat_map(move |(ty, n)| {
                (
                    proptest::collection::vec(gen::fgeom(ty, parts, pts), n),
                    Just((0..n).collect::<Vec<usize>>()).prop_shuffle(),
                    proptest::collection::vec(filler(), n + 1),
                    any::<bool>(),
                    0u8..4,
                )
                    .prop_map(move |(geoms, order, fillers, identity, numbering)| {
                        let mut m = FileModel::simple(ty, geoms);
                        m.order = if identity { (0..n).collect() } else { order };
                        // record numbers: by index rank (0, 1), by physical position - what the specification asks of a
                        // .shp (2) -, or arbitrary (3): with an index they play no role
                        if numbering == 2 {
                            for (k, ri) in m.order.clone().into_iter().enumerate() {
                                m.recs[ri].number = k as i32 + 1;
                            }
                        } else if numbering == 3 {
                            for (i, r) in m.recs.iter_mut().enumerate() {
                                r.number = [0, -1, 7, i32::MAX, 1, i32::MIN][(i * 5 + n) % 6];
                            }
                        }
                        m.fillers = fillers;
                        LayoutCase { model: m }
                    })
            })
            .boxed()
    }
    fn cases(env: &Env) -> u64 {
        env.n(13 * 10_000, 13 * 300_000)
    }
}

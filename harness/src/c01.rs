//! C01 — write-then-read round trip preserves every shape exactly.

use crate::common::*;
use proptest::prelude::*;
use shapefile::{Shape, ShapeReader, ShapeWriter};
use vlib::kinds::*;
use vlib::libops::*;
use vlib::model::*;
use vlib::run::*;
use vlib::{ensure, fail};

pub struct RoundTrip;

impl Prop for RoundTrip {
    type Case = FileCase;
    fn name() -> &'static str {
        "roundtrip"
    }
    fn rule() -> &'static str {
        "proptest: type (13) x constructor x finish mode x n>=1 shapes with skewed sizes and mixed float profiles \
         (small, dyadic, any non-NaN bit pattern, NaN in Z/M); every case reads back through generic/typed x \
         sequential/collect/random-access x with/without shx (in memory), 1 case in 4 (quick) also through files on disk. \
         Non-trivial: >=2 records, or a shape with >=2 parts, or a measure that is NaN / <= NO_DATA / next above NO_DATA; \
         distinct by hash of the whole case"
    }
    fn check(c: &FileCase, ctx: &mut Ctx) -> Result<(), Fail> {
        struct F<'a>(&'a FileCase, &'a mut Ctx);
        impl KindFn for F<'_> {
            type Out = Result<(), Fail>;
            fn call<K: Kind>(self) -> Self::Out
            where
                shapefile::Error: From<<K as TryFrom<Shape>>::Error>,
            {
                check_k::<K>(self.0, self.1)
            }
        }
        dispatch(c.ty, F(c, ctx))
    }
}

impl RandomProp for RoundTrip {
    fn strategy(env: &Env) -> BoxedStrategy<FileCase> {
        let (n, parts, pts) = sizes(env);
        file_case(FileGen {
            min_n: 1,
            max_n: n,
            nan_zm: true,
            max_parts: parts,
            max_pts: pts,
            disk_every: if env.thorough() { 2 } else { 4 },
        })
    }
    fn cases(env: &Env) -> u64 {
        env.n(13 * 10_000, 13 * 40_000)
    }
}

pub struct RoundTripLarge;

impl Prop for RoundTripLarge {
    type Case = FileCase;
    fn name() -> &'static str {
        "roundtrip-large"
    }
    fn rule() -> &'static str {
        "proptest: the roundtrip oracle on LARGE files — 130-420 records of tiny shapes, or 1-3 shapes with 260-330 parts, or 1-3 shapes          with 70-300 points per part (so that thresholds on record, part and point counts are crossed); non-trivial: every case"
    }
    fn check(c: &FileCase, ctx: &mut Ctx) -> Result<(), Fail> {
        ctx.nontrivial();
        RoundTrip::check(c, ctx)
    }
}

impl RandomProp for RoundTripLarge {
    fn strategy(_env: &Env) -> BoxedStrategy<FileCase> {
        large_file_case(true)
    }
    fn cases(env: &Env) -> u64 {
        env.n(13 * 20, 13 * 800)
    }
}

pub struct RoundTripBufio;

impl Prop for RoundTripBufio {
    type Case = FileCase;
    fn name() -> &'static str {
        "roundtrip-bufio"
    }
    fn rule() -> &'static str {
        "proptest: 2500-7000 small shapes of varying sizes written with ShapeWriter::from_path (BufWriter<File>) and read back by path \
         (read_shapes, read_shapes_as, ShapeReader::from_path iteration and random access, with and without .shx) as well as in memory: \
         files of 70-400 KB, so record headers / bodies / index entries straddle the 8 KiB buffer edges at every alignment; non-trivial: every case"
    }
    fn check(c: &FileCase, ctx: &mut Ctx) -> Result<(), Fail> {
        ctx.nontrivial();
        RoundTrip::check(c, ctx)
    }
}

impl RandomProp for RoundTripBufio {
    fn strategy(_env: &Env) -> BoxedStrategy<FileCase> {
        bufio_file_case()
    }
    fn cases(env: &Env) -> u64 {
        env.n(16, 160)
    }
}

fn cmp_seq(route: &str, expect: &[Geom], got: &[Geom]) -> Result<(), Fail> {
    ensure!(
        expect.len() == got.len(),
        "count",
        "route {}: wrote {} shapes, read {}",
        route,
        expect.len(),
        got.len()
    );
    for (i, (e, g)) in expect.iter().zip(got).enumerate() {
        if let Err(m) = same_after_read(e, g) {
            fail!("shape-differs", "route {}: shape {}: {}", route, i, m);
        }
    }
    Ok(())
}

fn collect_views<K: Kind, I: Iterator<Item = Result<K, shapefile::Error>>>(route: &str, it: I, cap: usize) -> Result<Vec<Geom>, Fail> {
    let (items, over) = drain_capped(it, cap);
    ensure!(!over, "too-many-items", "route {}: iterator yielded more than {} items", route, cap);
    let mut v = Vec::new();
    for (i, r) in items.into_iter().enumerate() {
        match r {
            Ok(s) => v.push(s.view()),
            Err(e) => fail!("read-error", "route {}: item {}: {}", route, i, err_str(&e)),
        }
    }
    Ok(v)
}

fn collect_generic<I: Iterator<Item = Result<Shape, shapefile::Error>>>(route: &str, it: I, cap: usize) -> Result<Vec<Geom>, Fail> {
    let (items, over) = drain_capped(it, cap);
    ensure!(!over, "too-many-items", "route {}: iterator yielded more than {} items", route, cap);
    let mut v = Vec::new();
    for (i, r) in items.into_iter().enumerate() {
        match r {
            Ok(s) => v.push(view_shape(&s)),
            Err(e) => fail!("read-error", "route {}: item {}: {}", route, i, err_str(&e)),
        }
    }
    Ok(v)
}

fn check_k<K: Kind>(c: &FileCase, ctx: &mut Ctx) -> Result<(), Fail>
where
    shapefile::Error: From<<K as TryFrom<Shape>>::Error>,
{
    classify_file(ctx, &c.geoms);
    if c.geoms.len() >= 2 || c.geoms.iter().any(|g| g.parts.len() >= 2) || c.geoms.iter().any(has_threshold_measure) {
        ctx.nontrivial();
    }
    let shapes: Vec<K> = build_all(&c.geoms, c.ctor);
    let written = views(&shapes);
    // "identical part / ring / patch structure" must hold whichever accessor looks at the value
    if let Err(m) = accessors_agree(&shapes) {
        fail!("accessors-disagree", "constructed value: {}", m);
    }
    let expect: Vec<Geom> = written.iter().map(expected_after_read).collect();
    let n = expect.len();
    let cap = n + 4;
    let (shp, shx) = match write_bytes_hist(&shapes, true, c.fin, c.mid_fins, c.rejects) {
        Ok(x) => x,
        Err(e) => fail!("write-error", "{}", e),
    };
    let shx = shx.unwrap();
    // a writer without index destination must leave a .shp that reads back the same
    {
        let (shp2, _) = match write_bytes_hist(&shapes, false, c.fin, c.mid_fins, c.rejects) {
            Ok(x) => x,
            Err(e) => fail!("write-error", "without index destination: {}", e),
        };
        let mut r = open_mem(&shp2, None).map_err(|e| Fail::new("open-error", format!("no-index writer: {}", err_str(&e))))?;
        let got = collect_generic("mem/written-without-shx/iter_shapes", r.iter_shapes(), cap)?;
        cmp_seq("mem/written-without-shx/iter_shapes", &expect, &got)?;
    }

    for with in [false, true] {
        let tag = if with { "shx" } else { "noshx" };
        let sx = if with { Some(&shx[..]) } else { None };
        let open = |what: &str| -> Result<MemReader, Fail> {
            open_mem(&shp, sx).map_err(|e| Fail::new("open-error", format!("{} {}: {}", what, tag, err_str(&e))))
        };
        // generic sequential
        let mut r = open("iter_shapes")?;
        let got = collect_generic(&format!("mem/{}/iter_shapes", tag), r.iter_shapes(), cap)?;
        cmp_seq(&format!("mem/{}/iter_shapes", tag), &expect, &got)?;
        // typed sequential
        let mut r = open("iter_shapes_as")?;
        let got = collect_views::<K, _>(&format!("mem/{}/iter_shapes_as", tag), r.iter_shapes_as::<K>(), cap)?;
        cmp_seq(&format!("mem/{}/iter_shapes_as", tag), &expect, &got)?;
        // collecting entry points
        let got = match open("read")?.read() {
            Ok(v) => shape_views(&v),
            Err(e) => fail!("read-error", "mem/{}/read: {}", tag, err_str(&e)),
        };
        cmp_seq(&format!("mem/{}/read", tag), &expect, &got)?;
        let got = match open("read_as")?.read_as::<K>() {
            Ok(v) => {
                if let Err(m) = accessors_agree(&v) {
                    fail!("accessors-disagree", "mem/{}/read_as: {}", tag, m);
                }
                views(&v)
            }
            Err(e) => fail!("read-error", "mem/{}/read_as: {}", tag, err_str(&e)),
        };
        cmp_seq(&format!("mem/{}/read_as", tag), &expect, &got)?;
        if with {
            let mut r = open("read_nth")?;
            // visit indices in a non-sequential order too
            let mut order: Vec<usize> = (0..n).collect();
            order.reverse();
            order.extend(0..n);
            for i in order {
                match r.read_nth_shape(i) {
                    Some(Ok(s)) => {
                        if let Err(m) = same_after_read(&expect[i], &view_shape(&s)) {
                            fail!("shape-differs", "route mem/shx/read_nth_shape({}): {}", i, m);
                        }
                    }
                    Some(Err(e)) => fail!("read-error", "read_nth_shape({}): {}", i, err_str(&e)),
                    None => fail!("count", "read_nth_shape({}) is None but {} shapes were written", i, n),
                }
                match r.read_nth_shape_as::<K>(i) {
                    Some(Ok(s)) => {
                        if let Err(m) = same_after_read(&expect[i], &s.view()) {
                            fail!("shape-differs", "route mem/shx/read_nth_shape_as({}): {}", i, m);
                        }
                    }
                    Some(Err(e)) => fail!("read-error", "read_nth_shape_as({}): {}", i, err_str(&e)),
                    None => fail!("count", "read_nth_shape_as({}) is None but {} shapes were written", i, n),
                }
            }
            // the Iterator adaptors (nth / skip / step_by / count / last) select the same items as a plain loop
            adaptor_routes("mem/shx", || open_mem(&shp, Some(&shx[..])), &expect, same_after_read).map_err(|(k, m)| Fail::new(&k, m))?;
            adaptor_routes("mem/noshx", || open_mem(&shp, None), &expect, same_after_read).map_err(|(k, m)| Fail::new(&k, m))?;
            // a sequential read on the reader that just served random accesses
            let got = collect_generic("mem/shx/read_nth then iter_shapes", r.iter_shapes(), cap)?;
            cmp_seq("mem/shx/read_nth then iter_shapes", &expect, &got)?;
        }
    }

    if c.disk {
        ctx.class("disk-route");
        let p = scratch_shp("c01", c.geoms.len() + c.mid_fins as usize);
        let px = p.with_extension("shx");
        {
            let w = match ShapeWriter::from_path(&p) {
                Ok(w) => w,
                Err(e) => fail!("write-error", "from_path: {}", err_str(&e)),
            };
            if let Err(e) = drive_writer_ff(w, &shapes, c.fin, c.mid_fins, c.rejects & 1 != 0) {
                fail!("write-error", "disk: {}", e);
            }
        }
        for with in [true, false] {
            let tag = if with { "shx" } else { "noshx" };
            if !with {
                std::fs::remove_file(&px).map_err(|e| Fail::new("disk-io", e.to_string()))?;
            }
            let got = match shapefile::read_shapes(&p) {
                Ok(v) => shape_views(&v),
                Err(e) => fail!("read-error", "disk/{}/read_shapes: {}", tag, err_str(&e)),
            };
            cmp_seq(&format!("disk/{}/read_shapes", tag), &expect, &got)?;
            let got = match shapefile::read_shapes_as::<_, K>(&p) {
                Ok(v) => views(&v),
                Err(e) => fail!("read-error", "disk/{}/read_shapes_as: {}", tag, err_str(&e)),
            };
            cmp_seq(&format!("disk/{}/read_shapes_as", tag), &expect, &got)?;
            let mut r = match ShapeReader::from_path(&p) {
                Ok(r) => r,
                Err(e) => fail!("open-error", "disk/{}/from_path: {}", tag, err_str(&e)),
            };
            let got = collect_generic(&format!("disk/{}/from_path.iter_shapes", tag), r.iter_shapes(), cap)?;
            cmp_seq(&format!("disk/{}/from_path.iter_shapes", tag), &expect, &got)?;
            if with {
                for i in (0..n).rev() {
                    match r.read_nth_shape_as::<K>(i) {
                        Some(Ok(s)) => {
                            if let Err(m) = same_after_read(&expect[i], &s.view()) {
                                fail!("shape-differs", "route disk/shx/read_nth_shape_as({}): {}", i, m);
                            }
                        }
                        Some(Err(e)) => fail!("read-error", "disk read_nth_shape_as({}): {}", i, err_str(&e)),
                        None => fail!("count", "disk read_nth_shape_as({}) is None", i),
                    }
                }
            } else {
                ensure!(
                    matches!(r.shape_count(), Err(shapefile::Error::MissingIndexFile)),
                    "missing-index",
                    "reader opened by path without .shx does not report MissingIndexFile"
                );
            }
        }
        let _ = std::fs::remove_file(&p);
    }
    Ok(())
}

//! vcheck-geo C20 [quick|thorough] [--replay <file>] — geo-types conversions and the geo-traits view.
//! Built against shapefile with the `geo-types` and `geo-traits` features.

use geo_traits::{CoordTrait, LineStringTrait, MultiLineStringTrait, MultiPointTrait, PointTrait};
use geo_types as gt;
use proptest::prelude::*;
use serde::{Deserialize, Serialize};
use shapefile::{
    Multipatch, Multipoint, MultipointM, MultipointZ, Point, PointM, PointZ, Polygon, PolygonM, PolygonZ, Polyline, PolylineM, PolylineZ,
    Shape,
};
use std::convert::TryFrom;
use std::path::PathBuf;
use vlib::gen;
use vlib::kinds::*;
use vlib::model::*;
use vlib::run::*;
use vlib::{ensure, fail};

type XY = (F, F);

fn xy_of(g: &Geom) -> Vec<Vec<XY>> {
    g.parts.iter().map(|p| p.pts.iter().map(|v| (v[0], v[1])).collect()).collect()
}
fn ls_xy(l: &gt::LineString<f64>) -> Vec<XY> {
    l.0.iter().map(|c| (F::of(c.x), F::of(c.y))).collect()
}
fn ls_of(p: &[XY]) -> gt::LineString<f64> {
    gt::LineString(p.iter().map(|(x, y)| gt::Coord { x: x.v(), y: y.v() }).collect())
}
fn up_to_reversal(a: &[XY], b: &[XY]) -> bool {
    a == b || a.iter().rev().copied().collect::<Vec<_>>() == b
}
/// geo-types closes rings itself when building a Polygon: compare with that in mind
fn closed(mut p: Vec<XY>) -> Vec<XY> {
    if let (Some(f), Some(l)) = (p.first().copied(), p.last().copied()) {
        if f.0.v() != l.0.v() || f.1.v() != l.1.v() {
            p.push(f);
        }
    }
    p
}

// ---------------------------------------------------------------------------------------------

#[derive(Serialize, Deserialize, Debug, Clone, Hash)]
pub enum GeoCase {
    /// (a) shape -> geo -> shape for point / multipoint / polyline families (2D, M, Z)
    Simple(Geom),
    /// (a) polygon families: outer-first nesting; rings as generated (roles = kinds), `exact` = dyadic with non-zero areas
    Poly { ty: Ty, rings: Vec<Part>, exact: bool },
    /// (a) ring-only multipatch
    Patch(Vec<Part>),
    /// (b) geo -> shape -> geo
    GeoPoint(XY),
    GeoLine(XY, XY),
    GeoLineString(Vec<XY>),
    GeoMultiLineString(Vec<Vec<XY>>),
    GeoMultiPoint(Vec<XY>),
    /// polygons as (exterior, interiors)
    GeoPolygons(Vec<(Vec<XY>, Vec<Vec<XY>>)>, bool),
    /// (c) refusals: 0 = NullShape, 1 = GeometryCollection, 2 = Rect, 3 = Triangle, 4 = multipatch with strip/fan
    Refuse(u8, Vec<Part>),
    /// (d) geo-traits view of a point value (x, y, z, m)
    TraitPoint(V),
    TraitMulti(Geom),
}

pub struct Geo;

fn simple_to_geo(g: &Geom) -> Result<(), Fail> {
    let want = xy_of(g);
    macro_rules! pt {
        ($T:ident) => {{
            let s = <$T as Kind>::build(g, Ctor::Plain);
            let p: gt::Point<f64> = s.into();
            ensure!((F::of(p.x()), F::of(p.y())) == want[0][0], "coords-changed", "{} -> geo Point changes coordinates", g.ty.name());
            let c: gt::Coord<f64> = s.into();
            ensure!((F::of(c.x), F::of(c.y)) == want[0][0], "coords-changed", "{} -> geo Coord changes coordinates", g.ty.name());
            let back: Point = p.into();
            ensure!((F::of(back.x), F::of(back.y)) == want[0][0], "roundtrip", "geo Point -> Point changes coordinates");
            let sh: Shape = s.into();
            match gt::Geometry::<f64>::try_from(sh) {
                Ok(gt::Geometry::Point(p2)) => ensure!((F::of(p2.x()), F::of(p2.y())) == want[0][0], "coords-changed", "Shape -> Geometry changes coordinates"),
                other => fail!("wrong-geometry", "Shape::{} converts to {:?}", g.ty.name(), other.map(|g| format!("{:?}", g))),
            }
        }};
    }
    macro_rules! mp {
        ($T:ident) => {{
            let s = <$T as Kind>::build(g, Ctor::Plain);
            let m: gt::MultiPoint<f64> = s.clone().into();
            let got: Vec<XY> = m.0.iter().map(|p| (F::of(p.x()), F::of(p.y()))).collect();
            ensure!(got == want[0], "coords-changed", "{} -> MultiPoint: {:?} vs {:?}", g.ty.name(), got, want[0]);
            let back: Multipoint = m.clone().into();
            let v2 = back.view();
            ensure!(xy_of(&v2) == want, "roundtrip", "MultiPoint -> Multipoint changes coordinates");
            match gt::Geometry::<f64>::try_from(Shape::from(s)) {
                Ok(gt::Geometry::MultiPoint(m2)) => ensure!(m2 == m, "wrong-geometry", "Shape -> Geometry differs from the direct conversion"),
                other => fail!("wrong-geometry", "Shape::{} converts to {:?}", g.ty.name(), other.map(|g| format!("{:?}", g))),
            }
        }};
    }
    macro_rules! pl {
        ($T:ident) => {{
            let s = <$T as Kind>::build(g, Ctor::Plain);
            let m: gt::MultiLineString<f64> = s.clone().into();
            let got: Vec<Vec<XY>> = m.0.iter().map(ls_xy).collect();
            ensure!(got == want, "coords-changed", "{} -> MultiLineString: grouping or coordinates differ: {:?} vs {:?}", g.ty.name(), got, want);
            let back: Polyline = m.clone().into();
            ensure!(xy_of(&back.view()) == want, "roundtrip", "MultiLineString -> Polyline changes coordinates or grouping");
            match gt::Geometry::<f64>::try_from(Shape::from(s)) {
                Ok(gt::Geometry::MultiLineString(m2)) => ensure!(m2 == m, "wrong-geometry", "Shape -> Geometry differs from the direct conversion"),
                other => fail!("wrong-geometry", "Shape::{} converts to {:?}", g.ty.name(), other.map(|g| format!("{:?}", g))),
            }
        }};
    }
    match g.ty {
        Ty::Point => pt!(Point),
        Ty::PointM => pt!(PointM),
        Ty::PointZ => pt!(PointZ),
        Ty::Multipoint => mp!(Multipoint),
        Ty::MultipointM => mp!(MultipointM),
        Ty::MultipointZ => mp!(MultipointZ),
        Ty::Polyline => pl!(Polyline),
        Ty::PolylineM => pl!(PolylineM),
        Ty::PolylineZ => pl!(PolylineZ),
        _ => {}
    }
    Ok(())
}

/// Expected grouping: every Outer ring starts a polygon, following Inner rings are its holes.
fn group(rings: &[(i32, Vec<XY>)]) -> Vec<(Vec<XY>, Vec<Vec<XY>>)> {
    let mut out: Vec<(Vec<XY>, Vec<Vec<XY>>)> = Vec::new();
    for (k, r) in rings {
        if *k == OUTER {
            out.push((r.clone(), vec![]));
        } else if let Some(last) = out.last_mut() {
            last.1.push(r.clone());
        } else {
            out.push((vec![], vec![r.clone()]));
        }
    }
    out
}

fn mpoly_groups(m: &gt::MultiPolygon<f64>) -> Vec<(Vec<XY>, Vec<Vec<XY>>)> {
    m.0.iter().map(|p| (ls_xy(p.exterior()), p.interiors().iter().map(ls_xy).collect())).collect()
}

fn poly_to_geo(ty: Ty, rings: &[Part], exact: bool, ctx: &mut Ctx) -> Result<(), Fail> {
    let g = Geom {
        ty,
        parts: rings.to_vec(),
        bbox: [F(0); 8],
        m_present: true,
    };
    macro_rules! go {
        ($T:ident) => {{
            let s = <$T as Kind>::build(&g, Ctor::Plain);
            let v = s.view();
            let m: gt::MultiPolygon<f64> = s.clone().into();
            (v, m, gt::Geometry::<f64>::try_from(Shape::from(s)))
        }};
    }
    let (view, m, generic) = match ty {
        Ty::Polygon => go!(Polygon),
        Ty::PolygonM => go!(PolygonM),
        _ => go!(PolygonZ),
    };
    match generic {
        Ok(gt::Geometry::MultiPolygon(m2)) => ensure!(m2 == m, "wrong-geometry", "Shape -> Geometry differs from the direct conversion"),
        other => fail!("wrong-geometry", "Shape::{} converts to {:?}", ty.name(), other.map(|g| format!("{:?}", g))),
    }
    // the library's own rings (closed, oriented) are what is converted
    let lib_rings: Vec<(i32, Vec<XY>)> = view.parts.iter().map(|p| (p.kind, p.pts.iter().map(|v| (v[0], v[1])).collect())).collect();
    let want = group(&lib_rings);
    let got = mpoly_groups(&m);
    ensure!(got.len() == want.len(), "grouping", "{} polygons, expected {} (one per outer ring): rings {:?}", got.len(), want.len(), lib_rings.iter().map(|r| r.0).collect::<Vec<_>>());
    for (i, (g_, w)) in got.iter().zip(&want).enumerate() {
        ensure!(g_.0 == closed(w.0.clone()), "coords-changed", "polygon {}: exterior {:?} vs ring {:?}", i, g_.0, w.0);
        ensure!(g_.1.len() == w.1.len(), "grouping", "polygon {}: {} holes, expected {}", i, g_.1.len(), w.1.len());
        for (j, (h, wh)) in g_.1.iter().zip(&w.1).enumerate() {
            ensure!(*h == closed(wh.clone()), "coords-changed", "polygon {} hole {}: {:?} vs {:?}", i, j, h, wh);
        }
    }
    if want.len() >= 2 && want.iter().skip(1).any(|w| !w.1.is_empty()) {
        ctx.nontrivial();
        ctx.class("hole-under-later-outer");
    }
    // and back: the original 2-D shape
    let back: Polygon = m.into();
    let bv = back.view();
    let two_d: Vec<(i32, Vec<XY>)> = bv.parts.iter().map(|p| (p.kind, p.pts.iter().map(|v| (v[0], v[1])).collect())).collect();
    // "converting back yields the original 2-D shape": asserted bit for bit whenever every coordinate is finite (also
    // for zero-area rings — the library reverses such an Inner ring on every pass, and the way back makes two passes);
    // with infinite coordinates the area is NaN-prone, there only "up to reversal" is asserted
    let finite = lib_rings.iter().all(|r| r.1.iter().all(|(x, y)| x.v().is_finite() && y.v().is_finite()));
    if exact || finite {
        ensure!(two_d == lib_rings, "roundtrip", "shape -> geo -> shape: rings {:?} came back as {:?}", lib_rings, two_d);
    } else {
        ensure!(two_d.len() == lib_rings.len(), "roundtrip", "shape -> geo -> shape: {} rings came back as {}", lib_rings.len(), two_d.len());
        for (i, (a, b)) in lib_rings.iter().zip(&two_d).enumerate() {
            ensure!(a.0 == b.0 && up_to_reversal(&a.1, &b.1), "roundtrip", "ring {} came back as {:?} (was {:?})", i, b, a);
        }
    }
    Ok(())
}

fn patch_to_geo(parts: &[Part]) -> Result<(), Fail> {
    let mp = Multipatch::with_parts(parts.iter().map(patch_of).collect());
    let view = mp.view();
    let m = gt::MultiPolygon::<f64>::try_from(mp.clone()).map_err(|e| Fail::new("ring-multipatch-refused", format!("ring-only multipatch refused: {}", e)))?;
    // OuterRing / FirstRing start a polygon, InnerRing / Ring are holes of the last one
    let rings: Vec<(i32, Vec<XY>)> = view
        .parts
        .iter()
        .map(|p| (if p.kind == 2 || p.kind == 4 { OUTER } else { INNER }, p.pts.iter().map(|v| (v[0], v[1])).collect()))
        .collect();
    let want = group(&rings);
    let got = mpoly_groups(&m);
    if rings.first().map(|r| r.0) != Some(OUTER) {
        // hole(s) before any outer ring: the property only speaks about outer-first shapes; every ring
        // must still come through, in order
        let flat = |g: &[(Vec<XY>, Vec<Vec<XY>>)]| -> Vec<Vec<XY>> {
            g.iter().flat_map(|(e, hs)| std::iter::once(e.clone()).chain(hs.iter().cloned())).filter(|r| !r.is_empty()).collect()
        };
        let w: Vec<Vec<XY>> = rings.iter().map(|r| closed(r.1.clone())).collect();
        ensure!(flat(&got) == w, "coords-changed", "multipatch with a leading hole: rings {:?} became {:?}", w, flat(&got));
        return Ok(());
    }
    ensure!(got.len() == want.len(), "grouping", "multipatch: {} polygons, expected {}", got.len(), want.len());
    for (i, (g_, w)) in got.iter().zip(&want).enumerate() {
        ensure!(g_.0 == closed(w.0.clone()), "coords-changed", "multipatch polygon {}: exterior differs", i);
        ensure!(g_.1.len() == w.1.len() && g_.1.iter().zip(&w.1).all(|(h, wh)| *h == closed(wh.clone())), "grouping", "multipatch polygon {}: holes differ", i);
    }
    match gt::Geometry::<f64>::try_from(Shape::from(mp)) {
        Ok(gt::Geometry::MultiPolygon(m2)) => ensure!(m2 == m, "wrong-geometry", "Shape::Multipatch -> Geometry differs"),
        other => fail!("wrong-geometry", "Shape::Multipatch converts to {:?}", other.map(|g| format!("{:?}", g))),
    }
    Ok(())
}

fn geo_polygons(polys: &[(Vec<XY>, Vec<Vec<XY>>)], single: bool) -> Result<(), Fail> {
    let mk = |p: &(Vec<XY>, Vec<Vec<XY>>)| gt::Polygon::new(ls_of(&p.0), p.1.iter().map(|h| ls_of(h)).collect());
    let gp: Vec<gt::Polygon<f64>> = polys.iter().map(mk).collect();
    // geo-types closes the rings itself: that is the reference
    let reference = mpoly_groups(&gt::MultiPolygon(gp.clone()));
    let shape: Polygon = if single && gp.len() == 1 {
        let s: Polygon = gp[0].clone().into();
        match Shape::try_from(gt::Geometry::Polygon(gp[0].clone())) {
            Ok(Shape::Polygon(p2)) => ensure!(p2.view() == s.view(), "wrong-shape", "Geometry::Polygon -> Shape differs from the direct conversion"),
            other => fail!("wrong-shape", "Geometry::Polygon converts to {:?}", other.map(|s| variant_ty(&s))),
        }
        s
    } else {
        let s: Polygon = gt::MultiPolygon(gp.clone()).into();
        match Shape::try_from(gt::Geometry::MultiPolygon(gt::MultiPolygon(gp.clone()))) {
            Ok(Shape::Polygon(p2)) => ensure!(p2.view() == s.view(), "wrong-shape", "Geometry::MultiPolygon -> Shape differs from the direct conversion"),
            other => fail!("wrong-shape", "Geometry::MultiPolygon converts to {:?}", other.map(|s| variant_ty(&s))),
        }
        s
    };
    // M / Z targets get the same 2-D rings
    let sm: PolygonM = gt::MultiPolygon(gp.clone()).into();
    let sz: PolygonZ = gt::MultiPolygon(gp.clone()).into();
    if !(single && gp.len() == 1) {
        ensure!(xy_of(&sm.view()) == xy_of(&shape.view()) && xy_of(&sz.view()) == xy_of(&shape.view()), "wrong-shape", "PolygonM / PolygonZ from geo differ from Polygon");
    }
    let back: gt::MultiPolygon<f64> = shape.into();
    let got = mpoly_groups(&back);
    ensure!(got.len() == reference.len(), "grouping", "geo -> shape -> geo: {} polygons became {}", reference.len(), got.len());
    for (i, (g_, r)) in got.iter().zip(&reference).enumerate() {
        ensure!(up_to_reversal(&g_.0, &r.0), "coords-changed", "polygon {}: exterior {:?} became {:?}", i, r.0, g_.0);
        ensure!(g_.1.len() == r.1.len(), "grouping", "polygon {}: {} holes became {}", i, r.1.len(), g_.1.len());
        for (j, (h, rh)) in g_.1.iter().zip(&r.1).enumerate() {
            ensure!(up_to_reversal(h, rh), "coords-changed", "polygon {} hole {}: {:?} became {:?}", i, j, rh, h);
        }
    }
    Ok(())
}

fn probe<C: CoordTrait<T = f64>>(name: &str, c: &C, fields: &[(geo_traits::Dimensions, Vec<F>)]) -> Result<(), Fail> {
    let d = c.dim();
    let n = d.size();
    let expect = fields
        .iter()
        .find(|(k, _)| *k == d)
        .map(|(_, f)| f.clone())
        .ok_or_else(|| Fail::new("dimension", format!("{} reports dimensions {:?}", name, d)))?;
    ensure!(expect.len() == n, "dimension", "{}: {:?} has size {}", name, d, n);
    for i in 0..n {
        let a = guard(|| c.nth(i)).map_err(|p| Fail::new("nth-panics", format!("{} with dim {:?} (size {}): nth({}) panics: {}", name, d, n, i, p)))?;
        ensure!(a.map(F::of) == Some(expect[i]), "nth-wrong", "{} dim {:?}: nth({}) = {:?}, field is {:?}", name, d, i, a, expect[i]);
        let b = guard(|| c.nth_or_panic(i)).map_err(|p| Fail::new("nth-panics", format!("{} dim {:?}: nth_or_panic({}) panics: {}", name, d, i, p)))?;
        ensure!(F::of(b) == expect[i], "nth-wrong", "{}: nth_or_panic({}) = {:?}", name, i, b);
        // SAFETY: i is below the reported dimension count, which is what the trait requires
        let u = guard(|| unsafe { c.nth_unchecked(i) }).map_err(|p| Fail::new("nth-panics", format!("{}: nth_unchecked({}) panics: {}", name, i, p)))?;
        ensure!(F::of(u) == expect[i], "nth-wrong", "{}: nth_unchecked({}) = {:?}", name, i, u);
    }
    let past = guard(|| c.nth(n)).map_err(|p| Fail::new("nth-panics", format!("{}: nth({}) panics: {}", name, n, p)))?;
    ensure!(past.is_none(), "nth-wrong", "{}: nth({}) = {:?} with only {} dimensions", name, n, past, n);
    ensure!(F::of(c.x()) == expect[0] && F::of(c.y()) == expect[1], "nth-wrong", "{}: x()/y() differ from the fields", name);
    Ok(())
}

/// Expected fields per reported dimension for a point of the 2-D / M / Z family holding `v`.
fn fields_for(family: u8, v: &V) -> Vec<(geo_traits::Dimensions, Vec<F>)> {
    use geo_traits::Dimensions as D;
    match family {
        0 => vec![(D::Xy, vec![v[0], v[1]])],
        1 => vec![(D::Xy, vec![v[0], v[1]]), (D::Xym, vec![v[0], v[1], v[3]])],
        _ => vec![(D::Xyz, vec![v[0], v[1], v[2]]), (D::Xyzm, vec![v[0], v[1], v[2], v[3]])],
    }
}

fn trait_point(v: &V) -> Result<(), Fail> {
    use geo_traits::Dimensions as D;
    let p = Point::new(v[0].v(), v[1].v());
    let pm = PointM::new(v[0].v(), v[1].v(), v[3].v());
    let pz = PointZ::new(v[0].v(), v[1].v(), v[2].v(), v[3].v());
    let f2 = vec![(D::Xy, vec![v[0], v[1]])];
    let fm = vec![(D::Xy, vec![v[0], v[1]]), (D::Xym, vec![v[0], v[1], v[3]])];
    let fz = vec![(D::Xyz, vec![v[0], v[1], v[2]]), (D::Xyzm, vec![v[0], v[1], v[2], v[3]])];
    probe("Point", &p, &f2)?;
    probe("&Point", &&p, &f2)?;
    probe("PointM", &pm, &fm)?;
    probe("&PointM", &&pm, &fm)?;
    probe("PointZ", &pz, &fz)?;
    probe("&PointZ", &&pz, &fz)?;
    // PointTrait view
    ensure!(PointTrait::coord(&p).is_some() && PointTrait::coord(&pm).is_some() && PointTrait::coord(&pz).is_some(), "point-trait", "coord() is None");
    ensure!(PointTrait::dim(&pm) == CoordTrait::dim(&pm) && PointTrait::dim(&pz) == CoordTrait::dim(&pz), "dimension", "PointTrait::dim and CoordTrait::dim disagree");
    if let Some(c) = PointTrait::coord(&pz) {
        probe("PointZ.coord()", &c, &fz)?;
    }
    if let Some(c) = PointTrait::coord(&pm) {
        probe("PointM.coord()", &c, &fm)?;
    }
    Ok(())
}

fn trait_multi(g: &Geom) -> Result<(), Fail> {
    let want = xy_of(g);
    let fam: u8 = if g.ty.has_z() { 2 } else if g.ty.carries_m() { 1 } else { 0 };
    macro_rules! mp {
        ($T:ident) => {{
            let s = <$T as Kind>::build(g, Ctor::Plain);
            ensure!(MultiPointTrait::num_points(&s) == want[0].len(), "trait-count", "num_points {} vs {}", MultiPointTrait::num_points(&s), want[0].len());
            let got: Vec<XY> = MultiPointTrait::points(&s).map(|p| { let c = PointTrait::coord(&p).unwrap(); (F::of(CoordTrait::x(&c)), F::of(CoordTrait::y(&c))) }).collect();
            ensure!(got == want[0], "trait-points", "MultiPointTrait enumerates {:?}, accessor has {:?}", got, want[0]);
            // every point reached through the view: dimension count and readable coordinates
            for (i, p) in MultiPointTrait::points(&s).enumerate() {
                let c = PointTrait::coord(&p).unwrap();
                probe(&format!("{} point {} through MultiPointTrait", g.ty.name(), i), &c, &fields_for(fam, &g.parts[0].pts[i]))?;
            }
        }};
    }
    macro_rules! pl {
        ($T:ident) => {{
            let s = <$T as Kind>::build(g, Ctor::Plain);
            ensure!(MultiLineStringTrait::num_line_strings(&s) == want.len(), "trait-count", "num_line_strings {} vs {}", MultiLineStringTrait::num_line_strings(&s), want.len());
            let got: Vec<Vec<XY>> = MultiLineStringTrait::line_strings(&s)
                .map(|l| LineStringTrait::coords(&l).map(|c| (F::of(CoordTrait::x(&c)), F::of(CoordTrait::y(&c)))).collect())
                .collect();
            ensure!(got == want, "trait-points", "MultiLineStringTrait enumerates {:?}, accessor has {:?}", got, want);
            for (pi, l) in MultiLineStringTrait::line_strings(&s).enumerate() {
                ensure!(LineStringTrait::num_coords(&l) == want[pi].len(), "trait-count", "line string {}: num_coords {} vs {}", pi, LineStringTrait::num_coords(&l), want[pi].len());
                for (i, c) in LineStringTrait::coords(&l).enumerate() {
                    probe(&format!("{} part {} point {} through LineStringTrait", g.ty.name(), pi, i), &c, &fields_for(fam, &g.parts[pi].pts[i]))?;
                }
            }
        }};
    }
    match g.ty {
        Ty::Multipoint => mp!(Multipoint),
        Ty::MultipointM => mp!(MultipointM),
        Ty::MultipointZ => mp!(MultipointZ),
        Ty::Polyline => pl!(Polyline),
        Ty::PolylineM => pl!(PolylineM),
        Ty::PolylineZ => pl!(PolylineZ),
        _ => {}
    }
    Ok(())
}

impl Prop for Geo {
    type Case = GeoCase;
    fn name() -> &'static str {
        "geo"
    }
    fn rule() -> &'static str {
        "proptest over four streams: (a) shapes of the point / multipoint / polyline families (2D, M, Z; any parts) and outer-first \
         polygons with generated nesting (several outers each followed by 0-3 holes; exact dyadic domain with non-zero areas, plus a \
         degenerate stream compared up to reversal) and ring-only multipatches -> geo-types: same X/Y bit patterns in order, same \
         grouping (line per part; exterior + following holes per outer), and back to the original 2-D shape; (b) geo-types Point, Line, \
         LineString (>=2 coords), MultiLineString, Polygon, MultiPolygon, MultiPoint with non-empty components -> shape -> geo: same \
         coordinates and grouping up to ring reversal and geo-types' own ring closing; (c) NullShape, strip / fan multipatches, \
         GeometryCollection, Rect, Triangle are refused with Err, never a panic; (d) geo-traits: for Point / PointM / PointZ values \
         (measures from {real, NO_DATA, below, next above, +-inf, NaN}) every index below dim().size() is readable through nth, \
         nth_or_panic, nth_unchecked and returns the matching field, nth(size) is None; multipoint / polyline trait views enumerate \
         the accessor's points. Non-trivial: a polygon with >=2 outers and a hole under a later outer, or a measure on the threshold"
    }
    fn check(c: &GeoCase, ctx: &mut Ctx) -> Result<(), Fail> {
        match c {
            GeoCase::Simple(g) => {
                ctx.class("a:simple");
                simple_to_geo(g)
            }
            GeoCase::Poly { ty, rings, exact } => {
                ctx.class(if *exact { "a:polygon-exact" } else { "a:polygon-degenerate" });
                poly_to_geo(*ty, rings, *exact, ctx)
            }
            GeoCase::Patch(p) => {
                ctx.class("a:ring-multipatch");
                patch_to_geo(p)
            }
            GeoCase::GeoPoint(p) => {
                ctx.class("b:point");
                let g = gt::Point::new(p.0.v(), p.1.v());
                let s: Point = g.into();
                ensure!((F::of(s.x), F::of(s.y)) == *p, "coords-changed", "geo Point -> Point");
                let m: PointM = g.into();
                let z: PointZ = g.into();
                ensure!(F::of(m.x) == p.0 && F::of(m.y) == p.1 && F::of(z.x) == p.0 && F::of(z.y) == p.1, "coords-changed", "geo Point -> PointM/PointZ");
                match Shape::try_from(gt::Geometry::Point(g)) {
                    Ok(Shape::Point(q)) => ensure!((F::of(q.x), F::of(q.y)) == *p, "coords-changed", "Geometry::Point -> Shape"),
                    other => fail!("wrong-shape", "Geometry::Point converts to {:?}", other.map(|s| variant_ty(&s))),
                }
                let back: gt::Point<f64> = s.into();
                ensure!((F::of(back.x()), F::of(back.y())) == *p, "roundtrip", "geo Point -> Point -> geo Point");
                Ok(())
            }
            GeoCase::GeoLine(a, b) => {
                ctx.class("b:line");
                let l = gt::Line::new(gt::Coord { x: a.0.v(), y: a.1.v() }, gt::Coord { x: b.0.v(), y: b.1.v() });
                let s: Polyline = l.into();
                ensure!(xy_of(&s.view()) == vec![vec![*a, *b]], "coords-changed", "geo Line -> Polyline: {:?}", xy_of(&s.view()));
                match Shape::try_from(gt::Geometry::Line(l)) {
                    Ok(Shape::Polyline(q)) => ensure!(q.view() == s.view(), "wrong-shape", "Geometry::Line -> Shape differs"),
                    other => fail!("wrong-shape", "Geometry::Line converts to {:?}", other.map(|s| variant_ty(&s))),
                }
                let back: gt::MultiLineString<f64> = s.into();
                ensure!(back.0.len() == 1 && ls_xy(&back.0[0]) == vec![*a, *b], "roundtrip", "Line -> Polyline -> MultiLineString");
                Ok(())
            }
            GeoCase::GeoLineString(p) => {
                ctx.class("b:linestring");
                let l = ls_of(p);
                let s: Polyline = l.clone().into();
                ensure!(xy_of(&s.view()) == vec![p.clone()], "coords-changed", "LineString -> Polyline");
                match Shape::try_from(gt::Geometry::LineString(l)) {
                    Ok(Shape::Polyline(q)) => ensure!(q.view() == s.view(), "wrong-shape", "Geometry::LineString -> Shape differs"),
                    other => fail!("wrong-shape", "Geometry::LineString converts to {:?}", other.map(|s| variant_ty(&s))),
                }
                let back: gt::MultiLineString<f64> = s.into();
                ensure!(back.0.len() == 1 && ls_xy(&back.0[0]) == *p, "roundtrip", "LineString -> Polyline -> MultiLineString");
                Ok(())
            }
            GeoCase::GeoMultiLineString(ps) => {
                ctx.class("b:multilinestring");
                let m = gt::MultiLineString(ps.iter().map(|p| ls_of(p)).collect());
                let s: Polyline = m.clone().into();
                ensure!(xy_of(&s.view()) == *ps, "coords-changed", "MultiLineString -> Polyline");
                let sz: PolylineZ = m.clone().into();
                let sm: PolylineM = m.clone().into();
                ensure!(xy_of(&sz.view()) == *ps && xy_of(&sm.view()) == *ps, "coords-changed", "MultiLineString -> PolylineM/Z");
                match Shape::try_from(gt::Geometry::MultiLineString(m.clone())) {
                    Ok(Shape::Polyline(q)) => ensure!(q.view() == s.view(), "wrong-shape", "Geometry::MultiLineString -> Shape differs"),
                    other => fail!("wrong-shape", "Geometry::MultiLineString converts to {:?}", other.map(|s| variant_ty(&s))),
                }
                let back: gt::MultiLineString<f64> = s.into();
                ensure!(back == m || back.0.iter().map(ls_xy).collect::<Vec<_>>() == *ps, "roundtrip", "MultiLineString -> Polyline -> MultiLineString");
                Ok(())
            }
            GeoCase::GeoMultiPoint(p) => {
                ctx.class("b:multipoint");
                let m = gt::MultiPoint(p.iter().map(|(x, y)| gt::Point::new(x.v(), y.v())).collect());
                let s: Multipoint = m.clone().into();
                ensure!(xy_of(&s.view()) == vec![p.clone()], "coords-changed", "MultiPoint -> Multipoint");
                match Shape::try_from(gt::Geometry::MultiPoint(m)) {
                    Ok(Shape::Multipoint(q)) => ensure!(q.view() == s.view(), "wrong-shape", "Geometry::MultiPoint -> Shape differs"),
                    other => fail!("wrong-shape", "Geometry::MultiPoint converts to {:?}", other.map(|s| variant_ty(&s))),
                }
                let back: gt::MultiPoint<f64> = s.into();
                ensure!(back.0.iter().map(|q| (F::of(q.x()), F::of(q.y()))).collect::<Vec<_>>() == *p, "roundtrip", "MultiPoint round trip");
                Ok(())
            }
            GeoCase::GeoPolygons(polys, single) => {
                ctx.class("b:polygons");
                geo_polygons(polys, *single)
            }
            GeoCase::Refuse(k, parts) => {
                ctx.class("c:refusal");
                let r = guard(|| -> Result<(), Fail> {
                    match k {
                        0 => ensure!(gt::Geometry::<f64>::try_from(Shape::NullShape).is_err(), "not-refused", "NullShape converts to a Geometry"),
                        1 => ensure!(
                            Shape::try_from(gt::Geometry::GeometryCollection(gt::GeometryCollection(vec![gt::Geometry::Point(gt::Point::new(1.0, 2.0))]))).is_err(),
                            "not-refused",
                            "GeometryCollection converts to a Shape"
                        ),
                        2 => ensure!(
                            Shape::try_from(gt::Geometry::Rect(gt::Rect::new(gt::Coord { x: 0.0, y: 0.0 }, gt::Coord { x: 1.0, y: 2.0 }))).is_err(),
                            "not-refused",
                            "Rect converts to a Shape"
                        ),
                        3 => ensure!(
                            Shape::try_from(gt::Geometry::Triangle(gt::Triangle::new(gt::Coord { x: 0.0, y: 0.0 }, gt::Coord { x: 1.0, y: 2.0 }, gt::Coord { x: 2.0, y: 0.0 }))).is_err(),
                            "not-refused",
                            "Triangle converts to a Shape"
                        ),
                        _ => {
                            let mp = Multipatch::with_parts(parts.iter().map(patch_of).collect());
                            let has_tri = parts.iter().any(|p| p.kind < 2);
                            let direct = gt::MultiPolygon::<f64>::try_from(mp.clone());
                            let generic = gt::Geometry::<f64>::try_from(Shape::from(mp));
                            ensure!(direct.is_err() == has_tri && generic.is_err() == has_tri, "not-refused", "multipatch with strip/fan: direct {:?}, generic {:?}", direct.is_ok(), generic.is_ok());
                        }
                    }
                    Ok(())
                });
                match r {
                    Ok(r) => r,
                    Err(p) => fail!("refusal-panics", "conversion panics instead of returning Err: {}", p),
                }
            }
            GeoCase::TraitPoint(v) => {
                ctx.class("d:trait-point");
                let m = v[3].v();
                if m.is_nan() || m <= NO_DATA || m == gen::next_up(NO_DATA) {
                    ctx.nontrivial();
                    ctx.class("d:threshold-measure");
                }
                trait_point(v)
            }
            GeoCase::TraitMulti(g) => {
                ctx.class("d:trait-multi");
                trait_multi(g)
            }
        }
    }
}

fn xy(dy: bool) -> BoxedStrategy<XY> {
    let f = if dy { gen::f_dyadic() } else { gen::f_nonnan() };
    (f.clone(), f).boxed()
}

/// A clockwise (outer) or counter-clockwise (inner) axis-aligned rectangle-ish ring with non-zero area on the dyadic grid.
fn exact_ring(kind: i32) -> BoxedStrategy<Part> {
    (-1000i32..1000, -1000i32..1000, 1i32..200, 1i32..200, any::<bool>(), any::<bool>())
        .prop_map(move |(x, y, w, h, rev, close)| {
            let s = 1.0 / 256.0;
            let (x0, y0, x1, y1) = (x as f64 * s, y as f64 * s, (x + w) as f64 * s, (y + h) as f64 * s);
            // clockwise: up, right, down, left
            let mut p = vec![v4(x0, y0, 0.0, 0.0), v4(x0, y1, 0.0, 0.0), v4(x1, y1, 0.0, 0.0), v4(x1, y0, 0.0, 0.0)];
            if close {
                p.push(p[0]);
            }
            if rev {
                p.reverse();
            }
            Part { kind, pts: p }
        })
        .boxed()
}

fn nested_rings(exact: bool) -> BoxedStrategy<Vec<Part>> {
    let ring = move |k: i32| -> BoxedStrategy<Part> {
        if exact {
            exact_ring(k)
        } else {
            // degenerate stream: collinear or tiny rings on arbitrary doubles
            (proptest::collection::vec(xy(false), 1..5), any::<bool>())
                .prop_map(move |(p, flat)| {
                    let y0 = p[0].1;
                    Part {
                        kind: k,
                        pts: p.iter().map(|(x, y)| [*x, if flat { y0 } else { *y }, F(0), F(0)]).collect(),
                    }
                })
                .boxed()
        }
    };
    proptest::collection::vec((ring(OUTER), proptest::collection::vec(ring(INNER), 0..=3)), 1..=4)
        .prop_map(|groups| {
            let mut v = Vec::new();
            for (o, hs) in groups {
                v.push(o);
                v.extend(hs);
            }
            v
        })
        .boxed()
}

/// A coordinate sequence in which, one time in three, some coordinate is repeated right after itself (and one time
/// in six all coordinates are the same).
fn with_repeats(v: BoxedStrategy<Vec<XY>>) -> BoxedStrategy<Vec<XY>> {
    (v, 0u8..6, any::<u16>())
        .prop_map(|(mut v, rel, ix)| {
            if !v.is_empty() {
                let i = gen::pick(ix, v.len());
                match rel {
                    0 | 1 => {
                        let d = v[i];
                        v.insert(i + 1, d);
                    }
                    2 => {
                        let d = v[i];
                        for x in v.iter_mut() {
                            *x = d;
                        }
                    }
                    _ => {}
                }
            }
            v
        })
        .boxed()
}

/// Relations BETWEEN the rings of one shape: one time in three a ring's X/Y sequence (optionally Z and M as well) is
/// copied onto another ring, whatever the two rings' roles.
fn with_repeated_ring(rings: BoxedStrategy<Vec<Part>>) -> BoxedStrategy<Vec<Part>> {
    (rings, 0u8..6, any::<u16>(), any::<u16>())
        .prop_map(|(mut r, rel, a, b)| {
            if rel < 2 && r.len() >= 2 {
                let i = gen::pick(a, r.len());
                let mut j = gen::pick(b, r.len());
                if i == j {
                    j = (i + 1) % r.len();
                }
                let src = r[i].pts.clone();
                if rel == 0 {
                    r[j].pts = src;
                } else {
                    // same outline, other heights and measures
                    r[j].pts = src.iter().enumerate().map(|(k, v)| [v[0], v[1], F::of(v[2].v() + 10.0 + k as f64), F::of(k as f64)]).collect();
                }
            }
            r
        })
        .boxed()
}

impl RandomProp for Geo {
    fn strategy(_env: &Env) -> BoxedStrategy<GeoCase> {
        let simple_ty = prop_oneof![
            Just(Ty::Point),
            Just(Ty::PointM),
            Just(Ty::PointZ),
            Just(Ty::Multipoint),
            Just(Ty::MultipointM),
            Just(Ty::MultipointZ),
            Just(Ty::Polyline),
            Just(Ty::PolylineM),
            Just(Ty::PolylineZ)
        ];
        let cfg = gen::GenCfg::new(gen::Profile::NonNan, true, 5, 8);
        let simple = simple_ty.clone().prop_flat_map(move |t| gen::geom(t, cfg)).prop_map(GeoCase::Simple);
        let poly_ty = prop_oneof![Just(Ty::Polygon), Just(Ty::PolygonM), Just(Ty::PolygonZ)];
        let poly = (poly_ty, any::<bool>()).prop_flat_map(|(ty, exact)| {
            with_repeated_ring(nested_rings(exact)).prop_map(move |mut rings| {
                // M / Z values ride along
                for r in rings.iter_mut() {
                    for (i, v) in r.pts.iter_mut().enumerate() {
                        if ty.has_z() {
                            v[2] = F::of(i as f64);
                        }
                        if ty.carries_m() {
                            v[3] = F::of(-(i as f64));
                        }
                    }
                }
                GeoCase::Poly { ty, rings, exact }
            })
        });
        let patch_kinds = prop_oneof![Just(2i32), Just(3i32), Just(4i32), Just(5i32)];
        let patch = with_repeated_ring(proptest::collection::vec((patch_kinds, proptest::collection::vec(gen::vertex(Ty::Multipatch, cfg), 1..6)).prop_map(|(k, p)| Part { kind: k, pts: p }), 1..6).boxed())
            .prop_map(GeoCase::Patch);
        let gpoly = (proptest::collection::vec((proptest::collection::vec(xy(true), 1..7), proptest::collection::vec(proptest::collection::vec(xy(true), 1..6), 0..3)), 1..4), any::<bool>())
            .prop_map(|(mut p, s)| {
                // one time in four the second polygon repeats the first one's exterior
                if p.len() >= 2 && p[0].0.len() % 4 == 0 {
                    p[1].0 = p[0].0.clone();
                }
                GeoCase::GeoPolygons(p, s)
            });
        let gpoly_any = (proptest::collection::vec((proptest::collection::vec(xy(false), 1..7), proptest::collection::vec(proptest::collection::vec(xy(false), 1..6), 0..3)), 1..4), any::<bool>())
            .prop_map(|(p, s)| GeoCase::GeoPolygons(p, s));
        let any_kinds = 0i32..=5;
        let refuse = (0u8..5, proptest::collection::vec((any_kinds, proptest::collection::vec(gen::vertex(Ty::Multipatch, cfg), 1..5)).prop_map(|(k, p)| Part { kind: k, pts: p }), 1..5))
            .prop_map(|(k, p)| GeoCase::Refuse(k, p));
        let tp = (gen::f_nonnan(), gen::f_nonnan(), gen::f_z(gen::Profile::NonNan, true), gen::f_measure(gen::Profile::Small, true)).prop_map(|(x, y, z, m)| GeoCase::TraitPoint([x, y, z, m]));
        let tm = prop_oneof![Just(Ty::Multipoint), Just(Ty::MultipointM), Just(Ty::MultipointZ), Just(Ty::Polyline), Just(Ty::PolylineM), Just(Ty::PolylineZ)]
            .prop_flat_map(move |t| gen::geom(t, cfg))
            .prop_map(GeoCase::TraitMulti);
        prop_oneof![
            3 => simple,
            4 => poly,
            2 => patch,
            1 => xy(false).prop_map(GeoCase::GeoPoint),
            1 => (xy(false), xy(false)).prop_map(|(a, b)| GeoCase::GeoLine(a, b)),
            1 => with_repeats(proptest::collection::vec(xy(false), 2..8).boxed()).prop_map(GeoCase::GeoLineString),
            1 => proptest::collection::vec(with_repeats(proptest::collection::vec(xy(false), 2..6).boxed()), 1..5).prop_map(GeoCase::GeoMultiLineString),
            2 => with_repeats(proptest::collection::vec(xy(false), 1..8).boxed()).prop_map(GeoCase::GeoMultiPoint),
            2 => gpoly,
            1 => gpoly_any,
            1 => refuse,
            3 => tp,
            1 => tm,
        ]
        .boxed()
    }
    fn cases(env: &Env) -> u64 {
        env.n(300_000, 20_000_000)
    }
}

fn main() {
    let args: Vec<String> = std::env::args().collect();
    if args.len() < 2 || args[1] != "C20" {
        eprintln!("usage: vcheck-geo C20 [quick|thorough] [--replay <file>]");
        std::process::exit(2);
    }
    let mut tier = match std::env::var("VERIF_TIER").ok().as_deref() {
        Some("thorough") => Tier::Thorough,
        _ => Tier::Quick,
    };
    let mut replay: Option<PathBuf> = None;
    let mut i = 2;
    while i < args.len() {
        match args[i].as_str() {
            "quick" => tier = Tier::Quick,
            "thorough" => tier = Tier::Thorough,
            "--tier" => {
                i += 1;
                if args.get(i).map(|s| s.as_str()) == Some("thorough") {
                    tier = Tier::Thorough
                }
            }
            "--replay" => {
                i += 1;
                replay = args.get(i).map(PathBuf::from);
            }
            o => {
                eprintln!("unknown argument {}", o);
                std::process::exit(2);
            }
        }
        i += 1;
    }
    install_panic_hook();
    let subs: Vec<Box<dyn SubCheck>> = vec![random::<Geo>()];
    let code = match replay {
        Some(p) => replay_main("C20", &p, subs),
        None => run_property(
            "C20",
            "exploration",
            &Env::from_env(tier),
            subs,
            &[
                "ring orientation asserted only where the shoelace sum is exact and non-zero; other rings compared up to full reversal",
                "geo-types' own normalisation (Polygon::new closes rings) is taken as the reference for the geo side",
            ],
        ),
    };
    std::process::exit(code);
}

fn main(){}
